import GoawkModel.C20
/-! C20 — the simple statements as real syntax: model of `printString` with the `hasRedirectOp` rule, `DeleteStmt`,
`ExitStmt`, `ReturnStmt`, `NextStmt` …, `ExprStmt` printers (internal/ast/ast.go) and of `simpleStmt()` / the keyword cases
of `stmt()` (parser/parser.go), over expression tokens plus the statement keywords. The expression parser is the C04
model `parseExpr`, run on the token list with every keyword read as an "other" token. -/
namespace GoawkModel.C20Simple
open GoawkModel.C04 GoawkModel.C20

inductive PTok
  | t (x : Tok)
  | kPrint | kPrintf | kDelete | kExit | kReturn | kNext | kNextfile | kBreak | kContinue
  deriving DecidableEq, Repr

def toE : PTok → Tok
  | .t x => x
  | _ => .other

def lift (ts : List Tok) : List PTok := ts.map PTok.t

/-- the expression-level view of the next token -/
def hdP (ts : List PTok) : Tok := hd (ts.map toE)

/-- `p.expr()` / `p.printExpr()` on a mixed token list -/
def pexpr (pc : Bool) (ts : List PTok) : Except Err (Expr × List PTok) :=
  match parseExpr pc (ts.map toE) with
  | .ok (e, rest) => .ok (e, ts.drop (ts.length - rest.length))
  | .error x => .error x

/-- `hasRedirectOp` of ast.go: the printed form has a `>` or `|` operator that is not inside parentheses or brackets -/
def hasRedirectOp : Expr → Bool
  | .binary op l r =>
    if op = .cmp .gt then true
    else (decide (bopPrec op ≤ goPrec l) && hasRedirectOp l) || (decide (bopPrec op ≤ goPrec r) && hasRedirectOp r)
  | .getline c _ _ => c != .none
  | .unary _ v => decide (10 ≤ goPrec v) && hasRedirectOp v
  | .cond c t f =>
    (decide (1 ≤ goPrec c) && hasRedirectOp c) || (decide (1 ≤ goPrec t) && hasRedirectOp t) ||
    (decide (1 ≤ goPrec f) && hasRedirectOp f)
  | .assign _ _ r => hasRedirectOp r
  | .inArr e _ => decide (4 ≤ goPrec e) && hasRedirectOp e
  | _ => false

inductive Simple
  | print (isPrintf : Bool) (args : List Expr) (redir : Option (Tok × Expr))
  | delete (a : Nat) (idx : Option Expr)
  | exit (e : Option Expr)
  | ret (e : Option Expr)
  | next | nextfile | brk | cont
  | exprS (e : Expr)
  deriving DecidableEq, Repr

/-! ## printers -/

/-- `strings.Join(parts, ", ")` -/
def showArgs : List Expr → List PTok
  | [] => []
  | [a] => lift (showE a)
  | a :: as => lift (showE a) ++ .t .comma :: showArgs as

def showOptE (kw : PTok) : Option Expr → List PTok
  | none => [kw]
  | some e => kw :: lift (showE e)

def showSimple : Simple → List PTok
  | .print f args redir =>
    (if f then PTok.kPrintf else PTok.kPrint) ::
      (if args.any hasRedirectOp then .t .lparen :: showArgs args ++ [.t .rparen] else showArgs args) ++
      (match redir with
       | none => []
       | some (tok, d) => .t tok :: lift (showE d))
  | .delete a none => [.kDelete, .t (.name a)]
  | .delete a (some i) => .kDelete :: .t (.name a) :: .t .lbracket :: lift (showE i) ++ [.t .rbracket]
  | .exit e => showOptE .kExit e
  | .ret e => showOptE .kReturn e
  | .next => [.kNext]
  | .nextfile => [.kNextfile]
  | .brk => [.kBreak]
  | .cont => [.kContinue]
  | .exprS e => lift (showE e)

/-! ## parsers -/

abbrev RS := Except Err (Simple × List PTok)

def skipNlP : List PTok → List PTok
  | .t .newline :: ts => skipNlP ts
  | ts => ts

/-- the rest of `exprList(parse)` after an element: `{ , NL* parse }` until a stop token -/
def pRest (pc : Bool) : Nat → List PTok → Except Err (List Expr × List PTok)
  | 0, _ => .error .syntax
  | n+1, r =>
    if printStop (hdP r) then .ok ([], r)
    else match r with
      | .t .comma :: r1 =>
        match pexpr pc (skipNlP r1) with
        | .ok (e, r2) =>
          match pRest pc n r2 with
          | .ok (es, r3) => .ok (e :: es, r3)
          | .error x => .error x
        | .error x => .error x
      | _ => .error .syntax

/-- `exprList(parse)` -/
def pList (pc : Bool) (ts : List PTok) : Except Err (List Expr × List PTok) :=
  if printStop (hdP ts) then .ok ([], ts)
  else match pexpr pc ts with
    | .ok (e, r) =>
      match pRest pc r.length.succ r with
      | .ok (es, r') => .ok (e :: es, r')
      | .error x => .error x
    | .error x => .error x

/-- the argument list of print/printf: a parenthesised list of two or more expressions directly followed by the end of the
    arguments is the `MultiExpr` that `simpleStmt` unwraps; anything else is `exprList(p.printExpr)` -/
def multiArgs (ts : List PTok) : Option (List Expr × List PTok) :=
  match ts with
  | .t .lparen :: r =>
    match pList false r with
    | .ok (es, .t .rparen :: r') => if 2 ≤ es.length && printStop (hdP r') then some (es, r') else none
    | _ => none
  | _ => none

def pPrintArgs (ts : List PTok) : Except Err (List Expr × List PTok) :=
  match multiArgs ts with
  | some res => .ok res
  | none => pList true ts

def pPrint (isPrintf : Bool) (ts : List PTok) : RS :=
  match pPrintArgs ts with
  | .error x => .error x
  | .ok (args, r) =>
    if isPrintf && args.isEmpty then .error .syntax
    else match r with
      | .t tok :: r' =>
        if isRedirect tok then
          match pexpr false r' with
          | .ok (d, r'') => .ok (.print isPrintf args (some (tok, d)), r'')
          | .error x => .error x
        else .ok (.print isPrintf args none, r)
      | _ => .ok (.print isPrintf args none, r)

def stmtEnd (t : Tok) : Bool :=
  match t with
  | .newline | .semi | .rbrace => true
  | _ => false

/-- `exit [expr]`, `return [expr]` -/
def pOptE (mk : Option Expr → Simple) (r : List PTok) : RS :=
  if stmtEnd (hdP r) then .ok (mk none, r)
  else match pexpr false r with
    | .ok (e, r') => .ok (mk (some e), r')
    | .error x => .error x

/-- an expression statement -/
def pExprStmt (ts : List PTok) : RS :=
  match pexpr false ts with
  | .ok (e, r) => .ok (.exprS e, r)
  | .error x => .error x

/-- `delete name '[' expr ']'` after the `[` (one index expression in the model) -/
def pDeleteIdx (a : Nat) (r2 : List PTok) : RS :=
  match pexpr false r2 with
  | .ok (i, r3) =>
    if hdP r3 == .rbracket then .ok (.delete a (some i), r3.tail)
    else if hdP r3 == .comma then .error .unsupported
    else .error .syntax
  | .error x => .error x

/-- `delete name [ '[' exprList ']' ]` after the name -/
def pDeleteName (a : Nat) (r1 : List PTok) : RS :=
  if hdP r1 == .lbracket then pDeleteIdx a r1.tail else .ok (.delete a none, r1)

def pDelete (r : List PTok) : RS :=
  match r with
  | .t tok :: r1 =>
    match tok with
    | .name a => pDeleteName a r1
    | _ => .error .syntax
  | _ => .error .syntax

/-- `simpleStmt()` and the keyword statements of `stmt()` (context checks not modelled) -/
def parseSimple (ts : List PTok) : RS :=
  match ts with
  | [] => pExprStmt []
  | tok :: r =>
    match tok with
    | .kPrint => pPrint false r
    | .kPrintf => pPrint true r
    | .kDelete => pDelete r
    | .kExit => pOptE .exit r
    | .kReturn => pOptE .ret r
    | .kNext => .ok (.next, r)
    | .kNextfile => .ok (.nextfile, r)
    | .kBreak => .ok (.brk, r)
    | .kContinue => .ok (.cont, r)
    | .t _ => pExprStmt ts

/-- erase grouping nodes -/
def stripSimple : Simple → Simple
  | .print f args redir => .print f (args.map strip) (redir.map fun (t, d) => (t, strip d))
  | .delete a idx => .delete a (idx.map strip)
  | .exit e => .exit (e.map strip)
  | .ret e => .ret (e.map strip)
  | .exprS e => .exprS (strip e)
  | s => s

end GoawkModel.C20Simple
