import GoawkModel.Basic
/-!
# C18 — the for-in idioms: what a loop `for (k in A) body` leaves behind, with and without a coverage counter in the body

`interp/vm.go`, opcode `ForIn`: for every key the Go map still holds when the iteration reaches it, the loop variable is assigned
the key and the body is executed; `break` leaves the loop, `continue` goes on with the next key. A key deleted before the
iteration reaches it is not produced (Go's `range` over a map). The order of the keys is not specified: it is a parameter here.

The state is what a probe of the harness (stream `idioms`) observes after the loop: the loop variable (unset or a key), a copy of
it, the keys of the array walked and of a second array, two counters, the length of a string, and the log of the coverage
counters that fired. Body statements are the ones the probes use. Core Lean only.
-/
namespace GoawkModel.C18.Idiom

abbrev Key := Nat

structure St where
  k : Option Key          -- the loop variable: `none` = never assigned
  x : Option Key          -- `x = k`
  a : List Key            -- keys of the array the loop walks
  b : List Key            -- keys of the other array
  n : Nat
  m : Nat
  s : Nat                 -- length of the string `s`
  cover : List Nat        -- coverage counters that fired, in order
  deriving DecidableEq, Repr

inductive Sig | normal | brk | cont
  deriving DecidableEq, Repr

inductive BSt
  | delOwn                -- delete A[k]
  | delOther              -- delete B[k]
  | clearOwn              -- delete A
  | clearOther            -- delete B
  | incN                  -- n++
  | incM                  -- m++
  | copyKey               -- x = k
  | touchOther            -- B[k] = 2   /   B[k]   (creates the element when it is missing)
  | catS                  -- s = s "x"
  | nop                   -- a statement that touches nothing observed here (print to stderr)
  | brk                   -- break
  | cont                  -- continue
  | ifBrk                 -- if (n++ >= 1) break
  | ifCont                -- if (n++ >= 1) continue
  | cover (c : Nat)       -- __COVER[c]++   /   __COVER[c] = 1
  deriving DecidableEq, Repr

def del (key : Option Key) (ks : List Key) : List Key :=
  match key with
  | none => ks
  | some k => ks.filter (· ≠ k)

def touch (key : Option Key) (ks : List Key) : List Key :=
  match key with
  | none => ks
  | some k => if k ∈ ks then ks else ks ++ [k]

def step : BSt → St → St × Sig
  | .delOwn, σ => ({ σ with a := del σ.k σ.a }, .normal)
  | .delOther, σ => ({ σ with b := del σ.k σ.b }, .normal)
  | .clearOwn, σ => ({ σ with a := [] }, .normal)
  | .clearOther, σ => ({ σ with b := [] }, .normal)
  | .incN, σ => ({ σ with n := σ.n + 1 }, .normal)
  | .incM, σ => ({ σ with m := σ.m + 1 }, .normal)
  | .copyKey, σ => ({ σ with x := σ.k }, .normal)
  | .touchOther, σ => ({ σ with b := touch σ.k σ.b }, .normal)
  | .catS, σ => ({ σ with s := σ.s + 1 }, .normal)
  | .nop, σ => (σ, .normal)
  | .brk, σ => (σ, .brk)
  | .cont, σ => (σ, .cont)
  | .ifBrk, σ => ({ σ with n := σ.n + 1 }, if σ.n ≥ 1 then .brk else .normal)
  | .ifCont, σ => ({ σ with n := σ.n + 1 }, if σ.n ≥ 1 then .cont else .normal)
  | .cover c, σ => ({ σ with cover := σ.cover ++ [c] }, .normal)

def runBody : List BSt → St → St × Sig
  | [], σ => (σ, .normal)
  | s :: rest, σ =>
    match step s σ with
    | (σ', .normal) => runBody rest σ'
    | r => r

/-- `for (k in A) body`, the keys reached in the order `order` -/
def forIn (body : List BSt) : List Key → St → St
  | [], σ => σ
  | key :: rest, σ =>
    if key ∈ σ.a then
      match runBody body { σ with k := some key } with
      | (σ', .brk) => σ'
      | (σ', _) => forIn body rest σ'
    else forIn body rest σ

/-- the number of times the body began (= the number of times its first statement began) -/
def iterations (body : List BSt) : List Key → St → Nat
  | [], _ => 0
  | key :: rest, σ =>
    if key ∈ σ.a then
      match runBody body { σ with k := some key } with
      | (_, .brk) => 1
      | (σ', _) => 1 + iterations body rest σ'
    else iterations body rest σ

/-- what the program can see: everything but the coverage log -/
def vis (σ : St) : St := { σ with cover := [] }

def isCover : BSt → Bool
  | .cover _ => true
  | _ => false

/-- the body without the counters the annotator inserted -/
def eraseB (body : List BSt) : List BSt := body.filter (fun s => !isCover s)

/-- the fast path of the seeded change C18-q2 for `for (k in A) delete A[k]`: clear the array, do not walk it -/
def clearOnly (σ : St) : St := { σ with a := [] }

end GoawkModel.C18.Idiom
