import GoawkModel.C04
/-! C04 — the parser's range ("canonical trees") and follow sets, as executable Boolean functions.

`canon pc k e`: the tree `e` (with its written parentheses as `group` nodes) is one the level-`k` parser produces from
`render e`, in print-argument context `pc`. `cl pc t`: the loosest... rather the *tightest* level whose tail consumes token `t`
(0: no level does); the follow condition of level `k` is `cl pc (hd rest) < k`. -/
namespace GoawkModel.C04

/-- highest level `j` such that some level `≥ j`… precisely: a level-`k` parser stops in front of `t` iff `cl pc t < k` -/
def cl (pc : Bool) : Tok → Nat
  | .asg _ => 2
  | .question => 2
  | .pipe => if pc then 0 else 2
  | .or => 3
  | .and => 4
  | .in_ => 5
  | .match_ _ => 6
  | .cmp c => if pc && c == .gt then 0 else 7
  | .num _ | .name _ | .str _ | .func _ | .lparen | .not | .dollar | .at => 8
  | .add | .sub => 9
  | .mul | .div | .mod => 10
  | .pow => 12
  | .incr | .decr => 14   -- `p.postIncr()` takes them after an lvalue, `p.primary()` after `$x`
  | .lbracket => 15
  | _ => 0

/-- the binary operators covered by the round-trip theorems (in a print argument an unparenthesised `>` is not a comparison) -/
def BOp.stageA (pc : Bool) : BOp → Bool
  | .cmp c => !(pc && c == .gt)
  | _ => true

/-- a token with which the right operand of a concatenation may start -/
def startOk (t : Tok) : Bool := concatStart t && !signStart t

/-- side condition of a concatenation: the right operand starts with a token on which `concat()` continues -/
def catOk (op : BOp) (r : Expr) : Bool := op != .concat || startOk (hd (render r))

/-- operands whose parse by `p.primary()` does not look at the token that follows them (other than `[` after a name) -/
def closed : Expr → Bool
  | .num _ | .var _ | .str _ | .group _ | .index _ _ => true
  | _ => false

/-- canonical trees: what the level-`k` parser produces from `render e` (written parentheses are `group` nodes) -/
def canon (pc : Bool) : Nat → Expr → Bool
  | k, .num _ => decide (k ≤ 15)
  | k, .var _ => decide (k ≤ 15)
  | k, .str _ => decide (k ≤ 15)
  | k, .group e => decide (k ≤ 15) && canon false 1 e
  | k, .unary _ e => decide (k ≤ 12) && canon pc 11 e   -- `pow()` (levels 11 and 12) reads a unary operator
  | k, .binary op l r => op.stageA pc && decide (k ≤ op.prec) && canon pc op.lhs l && canon pc op.rhs r && catOk op r
  | k, .cond c t f => decide (k ≤ 2) && canon pc 3 c && canon false 1 t && canon pc 1 f
  | k, .assign _ l r => decide (k ≤ 1) && l.isLValue && canon false 14 l && canon pc 1 r
  | k, .inArr e _ => decide (k ≤ 5) && canon pc 5 e
  | k, .index _ i => decide (k ≤ 15) && canon false 1 i
  | k, .field e => decide (k ≤ 14) && canon false 14 e
  | k, .namedField e => decide (k ≤ 14) && canon false 14 e   -- `@` then `p.primary()`
  | k, .incr true _ l => decide (k ≤ 13) && l.isLValue && canon false 14 l
  -- operand of a post-increment: `x`, `a[i]`, or `$e` with `e` closed (`$$x++` is `$($x++)`)
  | k, .incr false _ (.var _) => decide (k ≤ 13)
  | k, .incr false _ (.index _ i) => decide (k ≤ 13) && canon false 1 i
  | k, .incr false _ (.field e) => decide (k ≤ 13) && closed e && canon false 14 e
  -- getline forms: `getline [lv] [< file]` is read by `p.primary()` (target by `optionalLValue()`, file by `p.primary()`);
  -- `cmd | getline [lv]` by `p.getline()` (plain context only), the command being what `p.cond()` reads up to the `|`
  | k, .getline c t f =>
    (t == .none || (t.isLValue && canon false 14 t)) &&
    (if c == .none then decide (k ≤ 7) && (f == .none || canon false 14 f)
     else f == .none && decide (k ≤ 1) && !pc && canon false 3 c)
  | _, _ => false

/-- nesting depth of backward edges (an upper bound: every node counts) -/
def depth : Expr → Nat
  | .group e => depth e + 1
  | .unary _ e => depth e + 1
  | .binary _ l r => max (depth l) (depth r) + 1
  | .cond c t f => max (depth c) (max (depth t) (depth f)) + 1
  | .assign _ l r => max (depth l) (depth r) + 1
  | .inArr e _ => depth e + 1
  | .incr _ _ e => depth e + 1
  | .field e => depth e + 1
  | .namedField e => depth e + 1
  | .index _ i => depth i + 1
  | .getline c t f => max (depth c) (max (depth t) (if f = .none then 0 else depth f + 1))   -- only `< file` is a backward edge
  | _ => 0

end GoawkModel.C04
