/-! C20 — number literals: model of `NumExpr.String` (internal/ast/ast.go, as repaired by G20-1) over an abstract value
type, with the formatters and the literal reader as parameters.

  if math.IsInf(v)            → "1e999" / "-1e999"
  else if v == float64(int64(v)) → FormatInt(int64(v))
  else s := Sprintf("%.6g", v); r := ParseFloat(s); if r == float64(int64(r)) → FormatInt(int64(r)) else s -/
namespace GoawkModel.C20Num

/-- the ingredients of `NumExpr.String` and of the parser's NUMBER case -/
structure NumFmt (V T : Type) where
  /-- `Sprintf("%.6g", v)` -/
  fmtG : V → T
  /-- `FormatInt(int64(v), 10)` -/
  fmtInt : V → T
  /-- the text printed for an infinity -/
  infText : V → T
  /-- lexer NUMBER token + `strconv.ParseFloat` -/
  parse : T → V
  /-- `v == float64(int64(v))` -/
  isInt : V → Bool
  /-- `math.IsInf(v, 0)` -/
  isInf : V → Bool

/-- `NumExpr.String` -/
def NumFmt.show {V T : Type} (F : NumFmt V T) (v : V) : T :=
  if F.isInf v then F.infText v
  else if F.isInt v then F.fmtInt v
  else
    let r := F.parse (F.fmtG v)
    if F.isInt r then F.fmtInt r else F.fmtG v

/-- the laws of the formatter the fixed-point theorem needs (validated on strconv by the harness) -/
structure NumFmt.Laws {V T : Type} (F : NumFmt V T) : Prop where
  /-- a printed integer reads back as itself -/
  int_roundtrip : ∀ v, F.isInt v = true → F.parse (F.fmtInt v) = v
  /-- an integer-valued float is finite -/
  int_finite : ∀ v, F.isInt v = true → F.isInf v = false
  /-- rounding to six significant digits is a projection: reading `%.6g` text and printing it again gives the same text -/
  g_projection : ∀ v, F.isInf v = false → F.fmtG (F.parse (F.fmtG v)) = F.fmtG v
  /-- `%.6g` of a finite value reads back finite -/
  g_finite : ∀ v, F.isInf v = false → F.isInf (F.parse (F.fmtG v)) = false
  /-- the infinity text reads back as an infinity printed the same way -/
  inf_roundtrip : ∀ v, F.isInf v = true → F.isInf (F.parse (F.infText v)) = true ∧ F.infText (F.parse (F.infText v)) = F.infText v

end GoawkModel.C20Num
