import GoawkModel.Basic
/-! Model of the array-table discipline of `CallUser` (interp/vm.go) for the "locals used as arrays are fresh per call" clause of
C16 and for the "nothing of an aborted call reaches a later run" clause of C14.

`p.arrays` is a table of maps: the globals first, then the local arrays of the activations that are alive. A call of a function
with `nArr` local arrays (array parameters the caller did not pass) remembers `oldArraysLen`, appends `nArr` NEW EMPTY maps, runs
the body, and then truncates the table to `oldArraysLen` — on EVERY path: a return, falling off the end, and the "errors" `exit`,
`next`, `nextfile` and genuine run-time errors, which are propagated only after the truncation. END blocks (after `exit`), later
records (after `next`) and later `Execute` calls on the same Interpreter (`resetCore` does not touch `p.arrays`) continue with the
table as the call machinery left it.

Abstraction: a function body is a list of statements that write keys into the activation's own local arrays, call functions, or
leave; values, scalars, by-reference parameters and globals are not modelled (callshape.go / deeprec.go check those on the real code). -/
namespace GoawkModel.C16.Locals

/-- how a statement list ends -/
inductive Out | normal | ret | exit | next | nextfile | err
  deriving DecidableEq, Repr

inductive Stmt
  /-- `loc[key] = …` for local array number `slot` of the running activation -/
  | fill (slot key : Nat)
  /-- call of function number `f` (no array arguments: all its arrays are locals) -/
  | call (f : Nat)
  /-- `return` / `exit` / `next` / `nextfile` / a run-time error -/
  | leave (o : Out)
  deriving Repr

structure Fn where
  nArr : Nat
  body : List Stmt
  deriving Repr

/-- a map, as the list of the keys written (newest first) -/
abbrev AMap := List Nat
abbrev Table := List AMap

/-- `arrays[i][key] = …` (an index outside the table writes nothing) -/
def upd : Table → Nat → Nat → Table
  | [], _, _ => []
  | m :: t, 0, k => (k :: m) :: t
  | m :: t, i + 1, k => m :: upd t i k

structure St where
  tab : Table
  /-- one entry per function entry, in order: the sizes of the activation's local arrays when its body starts -/
  entries : List (List Nat)
  deriving Repr

/-- the `CallUser` case of `execute` together with the statements around it. `base` = index of the first local array of the
running activation; the fuel bounds the number of steps (running out = "exceeded maximum call depth", a run-time error). -/
def exec (fns : List Fn) : Nat → Nat → List Stmt → St → St × Out
  | _, _, [], s => (s, .normal)
  | 0, _, _ :: _, s => (s, .err)
  | fuel + 1, base, .fill slot key :: rest, s => exec fns fuel base rest { s with tab := upd s.tab (base + slot) key }
  | _ + 1, _, .leave o :: _, s => (s, o)
  | fuel + 1, base, .call f :: rest, s =>
    match fns[f]? with
    | none => (s, .err)
    | some fn =>
      let oldLen := s.tab.length
      let tab1 := s.tab ++ List.replicate fn.nArr []
      let s1 : St := { tab := tab1, entries := s.entries ++ [(tab1.drop oldLen).map List.length] }
      let r := exec fns fuel oldLen fn.body s1
      -- "Pop the locals off the stack": before looking at how the body ended
      let s3 : St := { r.1 with tab := r.1.tab.take oldLen }
      match r.2 with
      | .normal => exec fns fuel base rest s3
      | .ret => exec fns fuel base rest s3
      | o => (s3, o)

/-- top-level pieces of code (BEGIN, a pattern or action for one record, END, of this run or of later runs on the same
Interpreter), each run with the table the previous one left, whatever way that one ended -/
def phases (fns : List Fn) (fuel base : Nat) : List (List Stmt) → St → St × List Out
  | [], s => (s, [])
  | ph :: rest, s =>
    let r := exec fns fuel base ph s
    let r2 := phases fns fuel base rest r.1
    (r2.1, r.2 :: r2.2)

def AllFresh (es : List (List Nat)) : Prop := ∀ e ∈ es, ∀ n ∈ e, n = 0

end GoawkModel.C16.Locals
