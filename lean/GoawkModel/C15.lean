import GoawkModel.Basic
import GoawkModel.Generated.Consts
import GoawkModel.Generated.C15Poll
/-!
# C15 — cancellation: step-counter model of the dispatch-loop poll

`execute` (vm.go) polls at the head of its dispatch loop, before the opcode switch: `if p.checkCtx { p.checkContext() }`.
`checkContext` increments the shared counter `p.ctxOps`, and only when it reaches `checkContextOps` resets it and looks at
the context's Done channel. Nested `execute` calls (user functions, for-in bodies, patterns) use the same `p.ctxOps`
(it is written nowhere else — regenerated fact `ctxFieldWrites`), so all dispatches of a run form one sequence and the
model is a flat trace of dispatches.

A dispatch is `plain`, or a call of the harness's native `tick()`. The context becomes cancelled at global dispatch
index `t` (`none` = never): a script-callable `cancel()` executed by dispatch `i` gives `t = i + 1`; a pre-cancelled
context gives `t = 0`.
-/
namespace GoawkModel.C15

inductive D | plain | tick
  deriving DecidableEq, Repr

/-- `checkContext`: the new counter, and whether the Done channel is examined now -/
def poll (N c : Nat) : Nat × Bool := if c + 1 < N then (c + 1, false) else (0, true)

def cancelledBy (t : Option Nat) (i : Nat) : Bool :=
  match t with
  | some t => decide (t ≤ i)
  | none => false

structure Counts where
  ticks : Nat        -- tick() calls executed
  ticksAfter : Nat   -- … of which after the cancellation
  deriving DecidableEq, Repr

inductive Outcome
  | ctxErr (idx : Nat) (ctxOps : Nat) (k : Counts)    -- the poll of dispatch `idx` returned ctx.Err(); that dispatch did not execute
  | finished (ctxOps : Nat) (k : Counts)              -- the code ran to its end
  deriving DecidableEq, Repr

/-- the dispatch loop with the poll (checkCtx = true): trace, index of the next dispatch, counter, counts -/
def run (N : Nat) (t : Option Nat) : List D → Nat → Nat → Counts → Outcome
  | [], _, c, k => .finished c k
  | d :: ds, i, c, k =>
    if (poll N c).2 && cancelledBy t i then .ctxErr i (poll N c).1 k
    else
      match d with
      | .plain => run N t ds (i + 1) (poll N c).1 k
      | .tick => run N t ds (i + 1) (poll N c).1
          ⟨k.ticks + 1, if cancelledBy t i then k.ticksAfter + 1 else k.ticksAfter⟩

/-- the dispatch loop without the poll (checkCtx = false, i.e. plain `Execute`) -/
def runNoPoll : List D → Counts → Counts
  | [], k => k
  | .plain :: ds, k => runNoPoll ds k
  | .tick :: ds, k => runNoPoll ds ⟨k.ticks + 1, k.ticksAfter⟩

/-- the counter after `n` dispatches -/
def counterAfter (N : Nat) : Nat → Nat → Nat
  | 0, c => c
  | n + 1, c => counterAfter N n (poll N c).1

/-! ## The entry code of one call on an Interpreter

`Execute` assigns `checkCtx = false`; `ExecuteContext` assigns — unconditionally, regenerated fact `ctxFieldWrites` —
`checkCtx`, `ctx`, `ctxDone` and `ctxOps = 0` from its argument. `cancellable = false` stands for `context.Background()` /
`context.TODO()` (their Done channel is nil: never ready). -/

structure CtxState where
  checkCtx : Bool
  cancelAt : Option Nat    -- the context: the dispatch index from which its Done channel is readable (none = never)
  ctxOps : Nat
  deriving DecidableEq, Repr

inductive Call
  | execute
  | executeContext (cancellable : Bool) (t : Option Nat)
  deriving DecidableEq, Repr

def entry : Call → CtxState → CtxState
  | .execute, s => { s with checkCtx := false }
  | .executeContext cancellable t, _ => ⟨cancellable, if cancellable then t else none, 0⟩

/-- what the caller can observe of a run: the dispatch at which the context error was returned (if it was) and the
tick() calls made -/
def observe : Outcome → Option Nat × Counts
  | .ctxErr i _ k => (some i, k)
  | .finished _ k => (none, k)

/-- one call on an Interpreter whose context fields were left in state `s` by the previous call -/
def callOutcome (N : Nat) (k : Call) (s : CtxState) (tr : List D) : Option Nat × Counts :=
  let s' := entry k s
  if s'.checkCtx then observe (run N s'.cancelAt tr 0 s'.ctxOps ⟨0, 0⟩) else (none, runNoPoll tr ⟨0, 0⟩)

/-! ## Which error a failed run returns

`executeAll` runs three phases (BEGIN, the rules, END). When a phase ends with an error that is not `exit`, the error is
returned — after the context check `if p.checkCtx { if ctxErr := p.checkContextNow(); ctxErr != nil { return 0, ctxErr } }`.
The table of `return` statements and how each relates to that check is regenerated (`executeAllReturns`). -/

inductive RunErr | ctx | other
  deriving DecidableEq, Repr

/-- how the error return that follows a phase treats a raw (non-context) error, by the regenerated classification of
that return statement -/
def returnedError (how : String) (checkCtx cancelled : Bool) : RunErr :=
  if how == "after-context-check" && checkCtx && cancelled then .ctx else .other

/-- the classification of the raw-error return after phase `n` in the regenerated table (`none`: no such return) -/
def errorReturnOf (n : Nat) : Option String :=
  (Generated.C15Poll.executeAllReturns.find? (fun r => r.1 == "phase " ++ toString n ++ ": return 0, err")).map (·.2)

/-! ## The loop shape used for the correspondence check

`BEGIN { while (1) { tick(); if (++i == P) cancel() } }` compiles to 2 dispatches of prelude and 11 dispatches per
iteration (13 in the iteration that calls `cancel()`, whose CallNative is the 10th dispatch of the iteration); the harness
checks these numbers against the disassembly of the real program. -/

def iteration (withCancel : Bool) : List D :=
  .tick :: List.replicate (if withCancel then 12 else 10) .plain

def loopTrace (p iters : Nat) : List D :=
  [.plain, .plain] ++ (List.range iters).flatMap (fun j => iteration (j + 1 == p))

/-- dispatch index (0-based) of the `cancel()` call in `loopTrace p _` -/
def loopCancelIndex (p : Nat) : Nat := 2 + (p - 1) * 11 + 9

end GoawkModel.C15
