import GoawkModel.Generated.C12IoSites
/-!
# C12 — the expected inventory of OS-reaching sites of package `interp`

`Generated.C12IoSites` is rewritten from /repo's source on every run. `expectedSites` is what the I/O dispatch model
(`GoawkModel.C12`) was written against: every place that can open a file or start a process, the function it is in, and the
deny flags that syntactically dominate it. `Props.C12.gen_matches` states that the two are equal, so a new site, a site that
lost its guard, or a new OS-reaching import changes an obligation.
-/
namespace GoawkModel.C12

abbrev Site := String × String × Bool × List String

def expectedSites : List Site := [
  ("interp.callBuiltin", "(cmd).Start", true, ["noExec"]),              -- system()
  ("interp.callBuiltin", "p.execShell", true, ["noExec"]),
  ("interp.execShell", "exec.Command", true, []),                        -- the one helper that builds a process
  ("interp.execShell", "exec.CommandContext", true, []),
  ("interp.getInputScannerFile", "p.openFile", true, ["noFileReads"]),  -- getline < file
  ("interp.getInputScannerPipe", "newInCmdStream", true, ["noExec"]),   -- cmd | getline
  ("interp.getInputScannerPipe", "p.execShell", true, ["noExec"]),
  ("interp.getOutputStream", "newOutCmdStream", true, ["noExec"]),      -- print | cmd
  ("interp.getOutputStream", "p.execShell", true, ["noExec"]),
  ("interp.getOutputStream", "p.openFile", true, ["noFileWrites"]),     -- print > file, print >> file
  ("interp.nextLine", "p.openFile", true, ["noFileReads"]),             -- ARGV operands
  ("interp.setExecuteConfig", "os.OpenFile", false, []),                 -- the default value of p.openFile (a reference, not a call)
  ("newInCmdStream", "(cmd).Start", true, []),
  ("newOutCmdStream", "(cmd).Start", true, [])
]

def expectedImports : List String := ["bufio", "bytes", "context", "encoding/csv", "errors", "fmt",
  "github.com/benhoyt/goawk/internal/ast", "github.com/benhoyt/goawk/internal/compiler",
  "github.com/benhoyt/goawk/internal/resolver", "github.com/benhoyt/goawk/lexer", "github.com/benhoyt/goawk/parser",
  "io", "io/fs", "math", "math/rand", "os", "os/exec", "reflect", "regexp", "runtime", "sort", "strconv", "strings",
  "syscall", "time", "unicode/utf8"]

def expectedOpenFileAssignments : List (String × String) :=
  [("interp.setExecuteConfig", "config.OpenFile"), ("interp.setExecuteConfig", "os.OpenFile")]

/-- helpers that start a process or build one; they carry no flag test themselves, every caller must -/
def processHelpers : List String := ["interp.execShell", "newInCmdStream", "newOutCmdStream"]

def calleeNeeds (callee : String) : Option String :=
  if ["p.execShell", "newInCmdStream", "newOutCmdStream", "(cmd).Start", "exec.Command", "exec.CommandContext"].contains callee
  then some "noExec" else none

/-- structural rule, evaluated on the *generated* table: a call that starts or builds a process is either inside one of the
three helpers or dominated by a `noExec` test; a call of `p.openFile` is dominated by `noFileWrites` or `noFileReads`; and
nothing else in the package calls into `os` / `os/exec` / `syscall` / … at all (the only other entry is the reference to
`os.OpenFile` that becomes the default of `p.openFile`). Any callee not named here makes the rule false. -/
def siteGuarded (s : Site) : Bool :=
  let (fn, callee, isCall, guards) := s
  if callee = "p.openFile" then guards.contains "noFileWrites" || guards.contains "noFileReads"
  else match calleeNeeds callee with
    | some g => processHelpers.contains fn || guards.contains g
    | none => fn = "interp.setExecuteConfig" && callee = "os.OpenFile" && !isCall

end GoawkModel.C12
