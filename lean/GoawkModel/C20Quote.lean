import GoawkModel.Basic
/-!
C20 (printed program is a faithful AWK program) — the literal level: how string and regex literals are
printed (`internal/ast/ast.go`: `quoteString`, `formatRegex`, with `strconv.Quote` on one rune) and read
back (`lexer/lexer.go`: `parseString` as used for `"…"` tokens, `scanRegex`).  Core Lean only.

Byte-reader convention of the lexer: `l.ch` is the current byte, `0` at end of input (`peek`), `l.next()`
moves on and is a no-op at the end (`List.tail`).
-/
namespace GoawkModel.C20Quote

/-! ## UTF-8 (Go `unicode/utf8`) -/

def runeError : Nat := 0xFFFD

def isCont (b : UInt8) : Bool := 0x80 ≤ b.toNat && b.toNat ≤ 0xBF

/-- `utf8.DecodeRune`: (code point or `RuneError`, width).  Width 0 only for the empty input; an invalid or
truncated sequence (overlong, surrogate, > U+10FFFF, stray continuation byte) is `(RuneError, 1)`.
`lo`/`hi` are Go's `acceptRange` for the second byte. -/
def decodeRune (s : Bytes) : Nat × Nat :=
  match s with
  | [] => (runeError, 0)
  | b0 :: t =>
    let x := b0.toNat
    if x < 0x80 then (x, 1)
    else if x < 0xC2 then (runeError, 1)
    else if x < 0xE0 then
      match t with
      | b1 :: _ =>
        if isCont b1 then ((x - 0xC0) * 64 + (b1.toNat - 0x80), 2) else (runeError, 1)
      | [] => (runeError, 1)
    else if x < 0xF0 then
      let lo := if x = 0xE0 then 0xA0 else 0x80
      let hi := if x = 0xED then 0x9F else 0xBF
      match t with
      | b1 :: b2 :: _ =>
        if lo ≤ b1.toNat && b1.toNat ≤ hi && isCont b2 then
          ((x - 0xE0) * 4096 + (b1.toNat - 0x80) * 64 + (b2.toNat - 0x80), 3)
        else (runeError, 1)
      | _ => (runeError, 1)
    else if x < 0xF5 then
      let lo := if x = 0xF0 then 0x90 else 0x80
      let hi := if x = 0xF4 then 0x8F else 0xBF
      match t with
      | b1 :: b2 :: b3 :: _ =>
        if lo ≤ b1.toNat && b1.toNat ≤ hi && isCont b2 && isCont b3 then
          ((x - 0xF0) * 262144 + (b1.toNat - 0x80) * 4096 + (b2.toNat - 0x80) * 64 + (b3.toNat - 0x80), 4)
        else (runeError, 1)
      | _ => (runeError, 1)
    else (runeError, 1)

/-- `utf8.ValidRune` (on a non-negative value). -/
def validRune (r : Nat) : Bool := r < 0xD800 || (0xDFFF < r && r ≤ 0x10FFFF)

/-- `utf8.EncodeRune` / `utf8.AppendRune` (invalid runes are encoded as U+FFFD). -/
def encodeRune (r : Nat) : Bytes :=
  if r < 0x80 then [UInt8.ofNat r]
  else if r < 0x800 then [UInt8.ofNat (0xC0 + r / 64), UInt8.ofNat (0x80 + r % 64)]
  else if !validRune r then [0xEF, 0xBF, 0xBD]
  else if r < 0x10000 then
    [UInt8.ofNat (0xE0 + r / 4096), UInt8.ofNat (0x80 + r / 64 % 64), UInt8.ofNat (0x80 + r % 64)]
  else
    [UInt8.ofNat (0xF0 + r / 262144), UInt8.ofNat (0x80 + r / 4096 % 64), UInt8.ofNat (0x80 + r / 64 % 64),
     UInt8.ofNat (0x80 + r % 64)]

/-! ## Printing a string literal: `quoteString` -/

/-- `lowerhex[n]` for `n < 16`. -/
def hexLower (n : Nat) : UInt8 := if n < 10 then UInt8.ofNat (0x30 + n) else UInt8.ofNat (0x57 + n)

/-- `\xHH` (`fmt.Sprintf("\\x%02x", b)`, and strconv's `\x` + two `lowerhex` digits). -/
def hexEsc (b : UInt8) : Bytes := [0x5c, 0x78, hexLower (b.toNat / 16), hexLower (b.toNat % 16)]

/-- `strconv.IsPrint`: exactly 0x20..0x7e on ASCII; the non-ASCII part is the parameter `printable`. -/
def isPrint (printable : Nat → Bool) (r : Nat) : Bool :=
  if r < 0x80 then 0x20 ≤ r && r ≤ 0x7e else printable r

/-- `strconv.Quote(chunk)` without the surrounding quotes, for a `chunk` that is one rune (as decoded by
`utf8.DecodeRuneInString`): one iteration of `appendQuotedWith` + `appendEscapedRune`. -/
def strconvQuote1 (printable : Nat → Bool) (chunk : Bytes) : Bytes :=
  let (r, w) := decodeRune chunk
  if w == 1 && r == runeError then hexEsc (chunk.headD 0)
  else if r == 0x22 || r == 0x5c then [0x5c, UInt8.ofNat r]
  else if isPrint printable r then encodeRune r
  else if r == 0x07 then [0x5c, 0x61]
  else if r == 0x08 then [0x5c, 0x62]
  else if r == 0x0c then [0x5c, 0x66]
  else if r == 0x0a then [0x5c, 0x6e]
  else if r == 0x0d then [0x5c, 0x72]
  else if r == 0x09 then [0x5c, 0x74]
  else if r == 0x0b then [0x5c, 0x76]
  else if r < 0x20 || r == 0x7f then hexEsc (UInt8.ofNat r)
  else
    let r := if validRune r then r else runeError
    if r < 0x10000 then
      [0x5c, 0x75, hexLower (r / 4096 % 16), hexLower (r / 256 % 16), hexLower (r / 16 % 16), hexLower (r % 16)]
    else
      [0x5c, 0x55, hexLower (r / 268435456 % 16), hexLower (r / 16777216 % 16), hexLower (r / 1048576 % 16),
       hexLower (r / 65536 % 16), hexLower (r / 4096 % 16), hexLower (r / 256 % 16), hexLower (r / 16 % 16),
       hexLower (r % 16)]

/-- one iteration of the `quoteString` loop on the rune `chunk = s[i:i+n]`: `\u`/`\U` escapes are replaced
by one `\xHH` per byte of the rune. -/
def quoteChunk (printable : Nat → Bool) (chunk : Bytes) : Bytes :=
  let q := strconvQuote1 printable chunk
  if q.take 2 == [0x5c, 0x75] || q.take 2 == [0x5c, 0x55] then chunk.flatMap hexEsc else q

/-- the `quoteString` loop; the fuel is `len(s)` (every iteration consumes at least one byte). -/
def quoteBody (printable : Nat → Bool) : Nat → Bytes → Bytes
  | 0, _ => []
  | _ + 1, [] => []
  | f + 1, b :: t =>
    let n := (decodeRune (b :: t)).2
    quoteChunk printable ((b :: t).take n) ++ quoteBody printable f ((b :: t).drop n)

/-- `quoteString(s)`, with the surrounding double quotes. -/
def quote (printable : Nat → Bool) (s : Bytes) : Bytes :=
  0x22 :: (quoteBody printable s.length s ++ [0x22])

/-! ## Reading a string literal: `parseString('"', …)` + the end-quote check of `Lexer.scan` -/

def peek (inp : Bytes) : UInt8 := inp.headD 0

/-- `hexDigit(ch)`; `none` is Go's `-1`. -/
def hexDigitVal (c : UInt8) : Option Nat :=
  if 0x30 ≤ c.toNat && c.toNat ≤ 0x39 then some (c.toNat - 0x30)
  else if 0x61 ≤ c.toNat && c.toNat ≤ 0x66 then some (c.toNat - 0x61 + 10)
  else if 0x41 ≤ c.toNat && c.toNat ≤ 0x46 then some (c.toNat - 0x41 + 10)
  else none

/-- the `\u` loop: up to `n` further hex digits. -/
def readHex : Nat → Nat → Bytes → Nat × Bytes
  | 0, r, inp => (r, inp)
  | n + 1, r, inp =>
    match hexDigitVal (peek inp) with
    | some d => readHex n (r * 16 + d) inp.tail
    | none => (r, inp)

/-- the octal loop: up to `n` further octal digits, byte arithmetic wraps. -/
def readOct : Nat → UInt8 → Bytes → UInt8 × Bytes
  | 0, c, inp => (c, inp)
  | n + 1, c, inp =>
    if 0x30 ≤ (peek inp).toNat && (peek inp).toNat ≤ 0x37 then readOct n (c * 8 + (peek inp - 0x30)) inp.tail
    else (c, inp)

inductive Step where
  | done (rest : Bytes)                -- closing quote found and consumed
  | emit (out : Bytes) (rest : Bytes)  -- bytes appended to the value, input left
  | error
  deriving Repr, DecidableEq

/-- one iteration of the `parseString` loop (quote `"`); leaving the loop at `0` (end of input or a NUL byte)
makes `scan` fail with "didn't find end quote". -/
def step (inp : Bytes) : Step :=
  let c := peek inp
  if c == 0x22 then .done inp.tail
  else if c == 0 then .error
  else if c == 0x0d || c == 0x0a then .error
  else if c != 0x5c then .emit [c] inp.tail
  else
    let i1 := inp.tail
    let e := peek i1
    if e == 0x6e then .emit [0x0a] i1.tail
    else if e == 0x74 then .emit [0x09] i1.tail
    else if e == 0x72 then .emit [0x0d] i1.tail
    else if e == 0x61 then .emit [0x07] i1.tail
    else if e == 0x62 then .emit [0x08] i1.tail
    else if e == 0x66 then .emit [0x0c] i1.tail
    else if e == 0x76 then .emit [0x0b] i1.tail
    else if e == 0x78 then
      let i2 := i1.tail
      match hexDigitVal (peek i2) with
      | none => .error
      | some d1 =>
        let i3 := i2.tail
        match hexDigitVal (peek i3) with
        | some d2 => .emit [UInt8.ofNat (d1 * 16 + d2)] i3.tail
        | none => .emit [UInt8.ofNat d1] i3
    else if e == 0x75 then
      let i2 := i1.tail
      match hexDigitVal (peek i2) with
      | none => .error
      | some d =>
        let (r, i3) := readHex 7 d i2.tail
        if validRune r then .emit (encodeRune r) i3 else .error
    else if 0x30 ≤ e.toNat && e.toNat ≤ 0x37 then
      let (c, i2) := readOct 2 (e - 0x30) i1.tail
      .emit [c] i2
    else .emit [if e == 0 then 0x5c else e] i1.tail

def lexStringF : Nat → Bytes → Option (Bytes × Bytes)
  | 0, _ => none
  | f + 1, inp =>
    match step inp with
    | .done rest => some ([], rest)
    | .emit out rest => (lexStringF f rest).map fun p => (out ++ p.1, p.2)
    | .error => none

/-- the lexer reading a `"…"` literal, starting right after the opening quote: (value, input after the
closing quote), `none` for an ILLEGAL token.  Fuel `length + 1` is enough: every `emit` consumes a byte. -/
def lexString (inp : Bytes) : Option (Bytes × Bytes) := lexStringF (inp.length + 1) inp

/-! ## Regex literals: `formatRegex` and `scanRegex` -/

def escapeSlashes : Bytes → Bytes
  | [] => []
  | c :: t => if c == 0x2f then 0x5c :: 0x2f :: escapeSlashes t else c :: escapeSlashes t

/-- `formatRegex(r)`: every `/` becomes `\/`, wrapped in slashes. -/
def formatRegex (r : Bytes) : Bytes := 0x2f :: (escapeSlashes r ++ [0x2f])

/-- `scanRegex` after a `DIV` token, i.e. starting right after the opening `/`: (value, input after the closing
`/`).  `\/` yields `/`; any other `\c` yields `\c` (`c` may be a newline, a NUL byte or `\`); a bare newline,
NUL or end of input is an error.  After `DIV_ASSIGN` the result is the same with `=` put in front, which is
`lexRegex (0x3d :: src)`. -/
def lexRegex : Bytes → Option (Bytes × Bytes)
  | [] => none
  | c :: t =>
    if c == 0x2f then some ([], t)
    else if c == 0 then none
    else if c == 0x0d || c == 0x0a then none
    else if c == 0x5c then
      match t with
      | [] => none
      | d :: t' =>
        if d == 0x2f then (lexRegex t').map fun p => (0x2f :: p.1, p.2)
        else (lexRegex t').map fun p => (0x5c :: d :: p.1, p.2)
    else (lexRegex t).map fun p => (c :: p.1, p.2)

/-- the strings `scanRegex` can produce: a sequence of units `c` (`c` not `\`, NUL, CR, LF; `/` comes from `\/`)
and `\c` with `c ≠ /`. -/
def regexOk : Bytes → Bool
  | [] => true
  | c :: t =>
    if c == 0x5c then
      match t with
      | [] => false
      | d :: t' => d != 0x2f && regexOk t'
    else c != 0 && c != 0x0d && c != 0x0a && regexOk t

def RegexOk (r : Bytes) : Prop := regexOk r = true

instance (r : Bytes) : Decidable (RegexOk r) := by unfold RegexOk; infer_instance

/-! ## line protocol helper -/

def parseNats : List String → Option (List Nat)
  | [] => some []
  | w :: ws => do
    let n ← w.toNat?
    let ns ← parseNats ws
    pure (n :: ns)

/-- `quote <hex> <cp>*` | `unquote <hex>` | `fmtre <hex>` | `lexre <hex>` (hex, `-` = empty).  `unquote` and `lexre`
take the whole literal INCLUDING its opening `"` resp. `/` (the first byte is dropped unseen). -/
def handleQuote (args : List String) : Option String :=
  match args with
  | "quote" :: h :: cps => do
    let s ← fromHex h
    let ps ← parseNats cps
    pure (toHex (quote (fun r => ps.contains r) s))
  | ["unquote", h] => do
    let s ← fromHex h
    match lexString s.tail with
    | some (v, _) => pure (toHex v)
    | none => pure "err"
  | ["fmtre", h] => do
    let s ← fromHex h
    pure (toHex (formatRegex s))
  | ["lexre", h] => do
    let s ← fromHex h
    match lexRegex s.tail with
    | some (v, _) => pure (toHex v)
    | none => pure "err"
  | _ => none

end GoawkModel.C20Quote
