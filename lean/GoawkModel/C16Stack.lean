import GoawkModel.Basic
/-! Model of the VALUE STACK discipline of `CallUser` (interp/vm.go) for the clause "scalars are copied … accepted programs keep
their behaviour" of C16, at any call depth and under re-allocation of the stack.

`p.stack` is one Go slice; `push` / `pushNulls` grow it with `append`, which allocates a NEW backing array and copies the old
contents when the capacity is exhausted. Scalar parameters and locals of an activation are the `NumScalars` cells that are on top
of the stack when `CallUser` runs; `p.frame` is a SLICE of the stack (backing array + offset) taken at that moment. The caller's
frame is kept in the Go local `oldFrame` and put back after the call. Local scalars are read and written through `p.frame` only,
operands through `p.stack` only.

The model keeps every backing array that was ever allocated (`heap`), so that a stale slice can be told from a current one.
`Mode` selects how an activation finds its scalars:
* `savedSlice` — the code as it is: slices, saved and restored;
* `offset` — a base index into whatever `p.stack` currently is, for every access;
* `reslice` — slices while the activation runs, but after a nested call the caller's frame is cut anew out of the CURRENT stack at
  the saved base index (a variant that looks equivalent and is not: `Props.C16.reslice_fails`).

A run is a flat list of events (what the compiled code of the activations does to the stack, in execution order); the
reference semantics `Ref` gives every activation its own list of scalars and its own operand stack. -/
namespace GoawkModel.C16.Stack

inductive Mode | savedSlice | offset | reslice
  deriving DecidableEq, Repr

inductive Ev
  /-- an operand, an argument or the null of a callee's local goes on the stack (re-allocates when the stack is full) -/
  | push (v : Nat)
  /-- the top operand is consumed (observed) -/
  | pop
  /-- assignment to scalar `i` of the running activation -/
  | write (i v : Nat)
  /-- scalar `i` of the running activation is read (observed) -/
  | read (i : Nat)
  /-- `CallUser` of a function with `k` scalars: the top `k` cells become its frame -/
  | enter (k : Nat)
  /-- the function returns `v`: its cells are popped, the caller's frame is put back, `v` is pushed -/
  | leave (v : Nat)
  deriving Repr

/-- a Go slice of the value stack: backing array and offset -/
structure Slice where
  arr : Nat
  off : Nat
  deriving Repr

structure VM where
  /-- contents of every backing array allocated so far -/
  heap : Nat → Nat → Nat
  /-- number of backing arrays allocated so far -/
  nArr : Nat
  /-- the backing array `p.stack` points at, and its capacity -/
  cur : Nat
  cap : Nat
  sp : Nat
  /-- `p.frame` -/
  frame : Slice
  /-- the `oldFrame` locals of the `CallUser` activations (innermost first), each with the callee's `NumScalars` -/
  saved : List (Slice × Nat)

def setCell (h : Nat → Nat → Nat) (a i v : Nat) : Nat → Nat → Nat :=
  fun a' i' => if a' = a ∧ i' = i then v else h a' i'

/-- `append` beyond the capacity: a new backing array with the old contents -/
def realloc (grow : Nat → Nat) (m : VM) : VM :=
  { m with heap := fun a i => if a = m.nArr then m.heap m.cur i else m.heap a i,
           nArr := m.nArr + 1, cur := m.nArr, cap := grow m.cap }

def push (grow : Nat → Nat) (m : VM) (v : Nat) : VM :=
  let m1 := if m.sp ≥ m.cap then realloc grow m else m
  { m1 with heap := setCell m1.heap m1.cur m1.sp v, sp := m1.sp + 1 }

/-- the backing array through which the running activation reaches its scalars -/
def localArr (mode : Mode) (m : VM) : Nat :=
  match mode with
  | .offset => m.cur
  | _ => m.frame.arr

def step (mode : Mode) (grow : Nat → Nat) (m : VM) : Ev → VM × Option Nat
  | .push v => (push grow m v, none)
  | .pop => ({ m with sp := m.sp - 1 }, some (m.heap m.cur (m.sp - 1)))
  | .write i v => ({ m with heap := setCell m.heap (localArr mode m) (m.frame.off + i) v }, none)
  | .read i => (m, some (m.heap (localArr mode m) (m.frame.off + i)))
  | .enter k => ({ m with frame := ⟨m.cur, m.sp - k⟩, saved := (m.frame, k) :: m.saved }, none)
  | .leave v =>
    match m.saved with
    | [] => (m, none)
    | (f, k) :: rest =>
      let m1 : VM := { m with sp := m.sp - k, saved := rest,
                              frame := match mode with
                                | .reslice => ⟨m.cur, f.off⟩
                                | _ => f }
      (push grow m1 v, none)

def run (mode : Mode) (grow : Nat → Nat) : VM → List Ev → List Nat
  | _, [] => []
  | m, e :: es =>
    match step mode grow m e with
    | (m', some o) => o :: run mode grow m' es
    | (m', none) => run mode grow m' es

/-- a fresh interpreter: one backing array of capacity `cap0`, nothing on it, the main program has no frame -/
def init (cap0 : Nat) : VM :=
  { heap := fun _ _ => 0, nArr := 1, cur := 0, cap := cap0, sp := 0, frame := ⟨0, 0⟩, saved := [] }

/-! ### reference semantics: every activation owns its scalars and its operands -/

structure Act where
  locals : List Nat
  /-- top first -/
  ops : List Nat
  deriving Repr

def refStep : List Act → Ev → Option (List Act × Option Nat)
  | a :: rest, .push v => some ({ a with ops := v :: a.ops } :: rest, none)
  | a :: rest, .pop =>
    match a.ops with
    | v :: os => some ({ a with ops := os } :: rest, some v)
    | [] => none
  | a :: rest, .write i v =>
    if i < a.locals.length then some ({ a with locals := a.locals.set i v } :: rest, none) else none
  | a :: rest, .read i =>
    if i < a.locals.length then some (a :: rest, some (a.locals.getD i 0)) else none
  | a :: rest, .enter k =>
    if k ≤ a.ops.length then
      some (⟨(a.ops.take k).reverse, []⟩ :: { a with ops := a.ops.drop k } :: rest, none)
    else none
  | a :: b :: rest, .leave v =>
    if a.ops = [] then some ({ b with ops := v :: b.ops } :: rest, none) else none
  | _, _ => none

def refRun : List Act → List Ev → Option (List Nat)
  | _, [] => some []
  | s, e :: es =>
    match refStep s e with
    | none => none
    | some (s', some o) => (refRun s' es).map (o :: ·)
    | some (s', none) => refRun s' es

/-- the main program: no scalars of its own, nothing pending -/
def refInit : List Act := [⟨[], []⟩]

end GoawkModel.C16.Stack
