import GoawkModel.Basic
/-! C20 — statement level: model of the statement printers of internal/ast/ast.go (`Stmts.String`, `IfStmt`, `WhileStmt`,
`DoWhileStmt`, `ForStmt`, `ForInStmt`, `BlockStmt`) and of the statement parser of parser/parser.go (`stmt`, `stmts`,
`stmtsBrace`, the separator rule with `prevTok`) over tokens.

Expressions and simple statements (print/printf with redirects, delete, getline, expression statements, break, continue,
next, nextfile, exit, return) are opaque token classes here: `expr c` stands for a token run that the expression parser
reads back as the expression `c` (C04 `parse_canonical`, C20 `show_reparses`), `simple s` for a printed simple statement.
The context checks (break outside a loop, return outside a function, …) are not modelled. -/
namespace GoawkModel.C20Stmt

inductive STok
  | kIf | kElse | kWhile | kDo | kFor
  | lbrace | rbrace | lparen | rparen | semi | nl
  | expr (c : Nat)          -- a complete expression
  | simple (s : Nat)        -- a complete simple statement
  | forin (k : Nat)         -- `name in name` inside `for ( … )`
  | kBegin | kEnd | kFunction | comma
  | fname (k : Nat)         -- a function name
  | param (k : Nat)         -- a parameter name
  | eof
  deriving DecidableEq, Repr

/-- statements; a statement list is a right-nested chain `seq s₁ (seq s₂ … skip)` -/
inductive S
  | skip
  | seq (s : S) (rest : S)
  | simple (s : Nat)
  | ifS (c : Nat) (body els : S)
  | whileS (c : Nat) (body : S)
  | doS (body : S) (c : Nat)
  | forS (pre cond post : Option Nat) (body : S)
  | forIn (k : Nat) (body : S)
  | block (body : S)
  deriving DecidableEq, Repr

def hd : List STok → STok
  | [] => .eof
  | t :: _ => t

def isSep : STok → Bool
  | .nl | .semi => true
  | _ => false

/-- `p.optionalNewlines()` -/
def skipNl : List STok → List STok
  | .nl :: ts => skipNl ts
  | ts => ts

/-- `for p.matches(NEWLINE, SEMICOLON) { p.next() }` -/
def dropSeps : List STok → List STok
  | .nl :: ts => dropSeps ts
  | .semi :: ts => dropSeps ts
  | ts => ts

/-- result of a statement parser: the tree, the remaining tokens, and whether the last consumed token (`prevTok`) was a
    newline, a semicolon or a closing brace -/
abbrev R := Option (S × List STok × Bool)

/-- the end of `stmt()`: the separator rule, then the separators are consumed -/
def finish (s : S) (r : List STok) (prevSep : Bool) : R :=
  if isSep (hd r) || hd r == .rbrace || prevSep then
    some (s, dropSeps r, prevSep || isSep (hd r))
  else none

/-- append a statement to a statement list -/
def snoc : S → S → S
  | .skip, s => .seq s .skip
  | .seq a rest, s => .seq a (snoc rest s)
  | x, _ => x

mutual
/-- `p.stmt()` -/
def pStmt : Nat → List STok → R
  | 0, _ => none
  | n+1, ts =>
    match ts with
    | .kIf :: .lparen :: .expr c :: .rparen :: r =>
      match pStmts n (skipNl r) with
      | some (body, r2, p2) =>
        let r3 := skipNl r2
        let p3 := p2 || hd r2 == .nl
        match r3 with
        | .kElse :: r4 =>
          match pStmts n (skipNl r4) with
          | some (els, r6, p6) => finish (.ifS c body els) r6 p6
          | none => none
        | _ => finish (.ifS c body .skip) r3 p3
      | none => none
    | .kWhile :: .lparen :: .expr c :: .rparen :: r =>
      match pStmts n (skipNl r) with
      | some (body, r2, p2) => finish (.whileS c body) r2 p2
      | none => none
    | .kDo :: r =>
      match pStmts n (skipNl r) with
      | some (body, r2, _) =>
        match skipNl r2 with
        | .kWhile :: .lparen :: .expr c :: .rparen :: r4 => finish (.doS body c) r4 false
        | _ => none
      | none => none
    | .kFor :: .lparen :: .forin k :: .rparen :: r =>
      match pStmts n (skipNl r) with
      | some (body, r2, p2) => finish (.forIn k body) r2 p2
      | none => none
    | .kFor :: .lparen :: r =>
      -- [simpleStmt] ; NL* [expr] ; NL* [simpleStmt] ) NL* stmts
      let (pre, r1) := match r with | .simple s :: r' => (some s, r') | _ => (Option.none, r)
      match r1 with
      | .semi :: r2 =>
        let r2 := skipNl r2
        let (cond, r3) := match r2 with | .expr c :: r' => (some c, r') | _ => (Option.none, r2)
        match r3 with
        | .semi :: r4 =>
          let r4 := skipNl r4
          let (post, r5) := match r4 with | .simple s :: r' => (some s, r') | _ => (Option.none, r4)
          match r5 with
          | .rparen :: r6 =>
            match pStmts n (skipNl r6) with
            | some (body, r7, p7) => finish (.forS pre cond post body) r7 p7
            | none => none
          | _ => none
        | _ => none
      | _ => none
    | .lbrace :: _ =>
      match pBrace n ts with
      | some (body, r2, _) => finish (.block body) r2 true
      | none => none
    | .simple s :: r => finish (.simple s) r false
    | _ => none
/-- `p.stmts()` -/
def pStmts : Nat → List STok → R
  | 0, _ => none
  | n+1, ts =>
    match ts with
    | .semi :: r => some (.skip, r, true)
    | .lbrace :: _ => pBrace n ts
    | _ =>
      match pStmt n ts with
      | some (s, r, p) => some (.seq s .skip, r, p)
      | none => none
/-- `p.stmtsBrace()` -/
def pBrace : Nat → List STok → R
  | 0, _ => none
  | n+1, ts =>
    match ts with
    | .lbrace :: r => pLoop n .skip (skipNl r)
    | _ => none
/-- the loop of `stmtsBrace()` -/
def pLoop : Nat → S → List STok → R
  | 0, _, _ => none
  | n+1, acc, ts =>
    match ts with
    | .rbrace :: .semi :: r => some (acc, r, true)
    | .rbrace :: r => some (acc, r, true)
    | .nl :: r => pLoop n acc r
    | .semi :: r => pLoop n acc r
    | [] => none
    | _ =>
      match pStmt n ts with
      | some (s, r, _) => pLoop n (snoc acc s) r
      | none => none
end

/-- parse one statement with enough fuel -/
def parseStmt (ts : List STok) : R := pStmt (2 * ts.length + 2) ts

/-! ## the printers -/

mutual
/-- a statement's `String()` as tokens -/
def showS : S → List STok
  | .skip => []
  | .seq s _ => showS s                 -- (a list is printed by `showLines`)
  | .simple s => [.simple s]
  | .ifS c body els =>
    .kIf :: .lparen :: .expr c :: .rparen :: .lbrace :: .nl :: showLines body ++ .rbrace ::
      (match els with
       | .skip => []
       | _ => .kElse :: .lbrace :: .nl :: showLines els ++ [.rbrace])
  | .whileS c body => .kWhile :: .lparen :: .expr c :: .rparen :: .lbrace :: .nl :: showLines body ++ [.rbrace]
  | .doS body c => .kDo :: .lbrace :: .nl :: showLines body ++ [.rbrace, .kWhile, .lparen, .expr c, .rparen]
  | .forS pre cond post body =>
    .kFor :: .lparen :: (match pre with | some s => [STok.simple s] | none => []) ++ .semi ::
      (match cond with | some c => [STok.expr c] | none => []) ++ .semi ::
      (match post with | some s => [STok.simple s] | none => []) ++ .rparen :: .lbrace :: .nl :: showLines body ++ [.rbrace]
  | .forIn k body => .kFor :: .lparen :: .forin k :: .rparen :: .lbrace :: .nl :: showLines body ++ [.rbrace]
  | .block body => .lbrace :: .nl :: showLines body ++ [.rbrace]
/-- `Stmts.String()`: every statement on its own line(s) -/
def showLines : S → List STok
  | .seq s rest => showS s ++ .nl :: showLines rest
  | _ => []
end

mutual
/-- statement lists are `seq`-chains of single statements, bodies are lists -/
def isStmt : S → Bool
  | .simple _ => true
  | .ifS _ b e => isList b && isList e
  | .whileS _ b => isList b
  | .doS b _ => isList b
  | .forS _ _ _ b => isList b
  | .forIn _ b => isList b
  | .block b => isList b
  | _ => false
def isList : S → Bool
  | .skip => true
  | .seq s rest => isStmt s && isList rest
  | _ => false
end

/-! ## items: `program()` and `Program.String()` -/

/-- BEGIN / END / function / pattern-action items; patterns are opaque expressions (at most two: a range) -/
inductive Item
  | begin (body : S)
  | end_ (body : S)
  | func (name : Nat) (params : List Nat) (body : S)
  | action (pats : List Nat) (body : Option S)
  deriving DecidableEq, Repr

def showParams : List Nat → List STok
  | [] => []
  | [p] => [.param p]
  | p :: ps => .param p :: .comma :: showParams ps

def showPats : List Nat → List STok
  | [] => []
  | [c] => [.expr c]
  | c :: cs => .expr c :: .comma :: showPats cs

def showBody (b : S) : List STok := .lbrace :: .nl :: showLines b ++ [.rbrace]

def showItem : Item → List STok
  | .begin b => .kBegin :: showBody b
  | .end_ b => .kEnd :: showBody b
  | .func n ps b => .kFunction :: .fname n :: .lparen :: showParams ps ++ .rparen :: showBody b
  | .action pats none => showPats pats
  | .action pats (some b) => showPats pats ++ showBody b

/-- `strings.Join(parts, "\n\n")` -/
def showProg : List Item → List STok
  | [] => []
  | [i] => showItem i
  | i :: is => showItem i ++ .nl :: .nl :: showProg is

/-- the parameter list of `function()`: names separated by `, NL*` up to `)` -/
def pParams : Nat → Bool → List STok → Option (List Nat × List STok)
  | 0, _, _ => none
  | n+1, first, ts =>
    match ts with
    | .rparen :: r => some ([], r)
    | _ =>
      let ts1 := if first then some ts else (match ts with | .comma :: r => some (skipNl r) | _ => none)
      match ts1 with
      | some (.param p :: r) =>
        match pParams n false r with
        | some (ps, r') => some (p :: ps, r')
        | none => none
      | _ => none

/-- one item of `p.program()`: the item, the remaining tokens, and `needsTerminator` -/
def pItemAt (fuel : Nat) (ts2 : List STok) : Option (Item × List STok × Bool) :=
  match ts2 with
  | .kBegin :: r1 =>
    match pBrace fuel r1 with
    | some (b, r2, _) => some (.begin b, r2, false)
    | none => none
  | .kEnd :: r1 =>
    match pBrace fuel r1 with
    | some (b, r2, _) => some (.end_ b, r2, false)
    | none => none
  | .kFunction :: r0 =>
    match r0 with
    | .fname k :: .lparen :: r1 =>
      match pParams r1.length.succ true r1 with
      | some (ps, r2) =>
        match pBrace fuel (skipNl r2) with
        | some (b, r3, _) => some (.func k ps b, r3, false)
        | none => none
      | none => none
    | _ => none
  | _ =>
    -- [pattern [, pattern]] [ { … } ]
    let (pats1, r1) : List Nat × List STok := match ts2 with | .expr c :: r => ([c], r) | _ => ([], ts2)
    if pats1.isEmpty && hd ts2 != .lbrace then none
    else
      let res2 : Option (List Nat × List STok) :=
        if hd r1 == .lbrace || hd r1 == .eof || isSep (hd r1) then some (pats1, r1)
        else match r1 with
          | .comma :: r => (match skipNl r with | .expr c :: r' => some (pats1 ++ [c], r') | _ => none)
          | _ => none
      match res2 with
      | none => none
      | some (pats, r2) =>
        if hd r2 == .lbrace then
          match pBrace fuel r2 with
          | some (b, r3, _) => some (.action pats (some b), r3, false)
          | none => none
        else some (.action pats none, r2, true)

/-- `p.program()`; the flag is `needsTerminator` -/
def pItems : Nat → Bool → List STok → Option (List Item)
  | 0, _, _ => none
  | n+1, needs, ts =>
    match ts with
    | [] => some []
    | t :: r =>
      match (if needs then (if isSep t then some r else none) else some ts) with
      | none => none
      | some ts1 =>
        match skipNl ts1 with
        | [] => some []
        | ts2 =>
          match pItemAt (2 * ts.length + 2) ts2 with
          | some (i, r2, nd) => (pItems n nd r2).map (i :: ·)
          | none => none

def parseProg (ts : List STok) : Option (List Item) := pItems (ts.length + 1) false ts

def okItem : Item → Bool
  | .begin b => isList b
  | .end_ b => isList b
  | .func _ _ b => isList b
  | .action pats none => pats.length == 1 || pats.length == 2
  | .action pats (some b) => decide (pats.length ≤ 2) && isList b

end GoawkModel.C20Stmt
