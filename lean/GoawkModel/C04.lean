import GoawkModel.Basic
/-! C04 — model of the expression part of `parser/parser.go` on token lists.

One function per Go level. Every level is written as `levelP ts = bindR (higherP ts) levelT`, where the *tail* `levelT e rest`
is what the Go function does after its first operand has been parsed (this is also exactly what the `pendingGetlineLeft`
device of `getline()` needs: the tails of all levels applied to the `cmd | getline` primary).
Backward edges of the recursion (`p.expr()`, `p.printExpr()`, `p.pow()`, `p.primary()` called from *inside* a higher level)
go through the record `Back` (open recursion); the knot is tied once in `ps` with fuel. Core Lean only. -/
namespace GoawkModel.C04

inductive AOp | set | add | sub | mul | div | mod | pow
  deriving DecidableEq, Repr
inductive Cmp | eq | ne | lt | le | gt | ge
  deriving DecidableEq, Repr
inductive UOp | neg | pos | not
  deriving DecidableEq, Repr
inductive BOp | or | and | match_ | notMatch | cmp (c : Cmp) | concat | add | sub | mul | div | mod | pow
  deriving DecidableEq, Repr

/-- The expression tokens (`lexer.Token` restricted to what can occur around an expression). Literals carry an id. -/
inductive Tok
  | num (i : Nat) | name (i : Nat) | str (i : Nat) | func (i : Nat)
  | lparen | rparen | lbracket | rbracket | comma | question | colon
  | asg (op : AOp)
  | or | and | in_ | match_ (neg : Bool) | cmp (c : Cmp)
  | add | sub | mul | div | mod | pow | not | incr | decr | dollar | at
  | getline | pipe | append | newline | semi | rbrace | eof | other
  deriving DecidableEq, Repr

inductive Expr
  | none                                   -- absent optional part (getline target/file/command)
  | num (i : Nat) | var (i : Nat) | str (i : Nat)
  | group (e : Expr)
  | unary (op : UOp) (e : Expr)
  | binary (op : BOp) (l r : Expr)
  | cond (c t f : Expr)
  | assign (op : AOp) (l r : Expr)
  | inArr (e : Expr) (arr : Nat)
  | incr (pre dec : Bool) (e : Expr)
  | field (e : Expr)
  | index (arr : Nat) (i : Expr)
  | getline (cmd target file : Expr)
  | namedField (e : Expr)                  -- `@expr` (field by name)
  deriving DecidableEq, Repr

inductive Err | syntax | unsupported
  deriving DecidableEq, Repr

abbrev Res := Except Err (Expr × List Tok)
abbrev Parser := List Tok → Res

def hd : List Tok → Tok
  | [] => .eof
  | t :: _ => t

def bindR (r : Res) (f : Expr → List Tok → Res) : Res :=
  match r with
  | .ok (e, rest) => f e rest
  | .error x => .error x

/-- `ast.IsLValue` -/
def Expr.isLValue : Expr → Bool
  | .var _ => true
  | .index _ _ => true
  | .field _ => true
  | _ => false

/-- `p.optionalNewlines()` -/
def skipNl : List Tok → List Tok
  | .newline :: ts => skipNl ts
  | ts => ts

/-- parsers reached through backward edges -/
structure Back where
  expr : Parser
  printExpr : Parser
  pow : Parser
  primary : Parser

/-- `[ exprList ]` after an array name: one index expression (several are outside the model: `unsupported`). -/
def indexTail (b : Back) (arr : Nat) (ts : List Tok) : Res :=
  match b.expr ts with
  | .ok (i, rest) =>
    match rest with
    | .rbracket :: rest' => .ok (.index arr i, rest')
    | .comma :: _ => .error .unsupported
    | _ => .error .syntax
  | .error x => .error x

/-- `p.optionalLValue()`; `none` = Go's nil. Tokens are always separated by blanks in the model's inputs, so a name is never
    directly followed by `(` (the `PeekByte` test). -/
def optLValue (b : Back) (ts : List Tok) : Except Err (Option (Expr × List Tok)) :=
  match ts with
  | .name a :: .lbracket :: rest =>
    match indexTail b a rest with
    | .ok r => .ok (some r)
    | .error x => .error x
  | .name a :: rest => .ok (some (.var a, rest))
  | .dollar :: rest =>
    match b.primary rest with
    | .ok (e, rest') => .ok (some (.field e, rest'))
    | .error x => .error x
  | _ => .ok Option.none

def uopOf : Tok → Option UOp
  | .not => some .not
  | .add => some .pos
  | .sub => some .neg
  | _ => Option.none

/-- `p.primary()` without the pending-getline entry (that is `pendingPrimary`). -/
def primaryF (b : Back) : Parser
  | [] => .error .syntax
  | t :: ts =>
    match t with
    | .num i => .ok (.num i, ts)
    | .str i => .ok (.str i, ts)
    | .dollar =>
      match b.primary ts with
      | .ok (e, rest) =>
        match rest with
        | .incr :: rest' => .ok (.incr false false (.field e), rest')
        | .decr :: rest' => .ok (.incr false true (.field e), rest')
        | _ => .ok (.field e, rest)
      | .error x => .error x
    | .not => bindR (b.pow ts) fun e rest => .ok (.unary .not e, rest)
    | .add => bindR (b.pow ts) fun e rest => .ok (.unary .pos e, rest)
    | .sub => bindR (b.pow ts) fun e rest => .ok (.unary .neg e, rest)
    | .incr =>
      match optLValue b ts with
      | .ok (some (e, rest)) => .ok (.incr true false e, rest)
      | .ok Option.none => .error .syntax
      | .error x => .error x
    | .decr =>
      match optLValue b ts with
      | .ok (some (e, rest)) => .ok (.incr true true e, rest)
      | .ok Option.none => .error .syntax
      | .error x => .error x
    | .name a =>
      match ts with
      | .lbracket :: rest => indexTail b a rest
      | _ => .ok (.var a, ts)
    | .lparen =>
      match b.expr ts with
      | .ok (e, rest) =>
        match rest with
        | .rparen :: rest' => .ok (.group e, rest')
        | .comma :: _ => .error .unsupported
        | _ => .error .syntax
      | .error x => .error x
    | .getline =>
      match optLValue b ts with
      | .ok r =>
        let target := match r with | some (e, _) => e | Option.none => Expr.none
        let rest := match r with | some (_, rest) => rest | Option.none => ts
        match rest with
        | .cmp .lt :: rest' =>
          bindR (b.primary rest') fun f rest'' => .ok (.getline .none target f, rest'')
        | _ => .ok (.getline .none target .none, rest)
      | .error x => .error x
    | .div => .error .unsupported
    | .asg .div => .error .unsupported
    | .at => bindR (b.primary ts) fun e rest => .ok (.namedField e, rest)
    | .func _ => .error .unsupported
    | _ => .error .syntax

/-- `p.postIncr()` after `p.primary()` -/
def postT (e : Expr) (ts : List Tok) : Res :=
  match ts with
  | .incr :: rest => if e.isLValue then .ok (.incr false false e, rest) else .ok (e, ts)
  | .decr :: rest => if e.isLValue then .ok (.incr false true e, rest) else .ok (e, ts)
  | _ => .ok (e, ts)

/-- `p.pow()` after `p.postIncr()` -/
def powT (b : Back) (e : Expr) (ts : List Tok) : Res :=
  match ts with
  | .pow :: rest => bindR (b.pow rest) fun r rest' => .ok (.binary .pow e r, rest')
  | _ => .ok (e, ts)

/-- the loop of `p.binaryLeft(higher, allowNewline, ops...)`; fuel = number of tokens left -/
def loopL (H : Parser) (isOp : Tok → Option BOp) (nl : Bool) : Nat → Expr → List Tok → Res
  | 0, acc, ts => .ok (acc, ts)
  | n+1, acc, ts =>
    match ts with
    | [] => .ok (acc, [])
    | t :: rest =>
      match isOp t with
      | Option.none => .ok (acc, ts)
      | some op =>
        match H (if nl then skipNl rest else rest) with
        | .ok (r, rest') => loopL H isOp nl n (.binary op acc r) rest'
        | .error x => .error x

def mulOp : Tok → Option BOp
  | .mul => some .mul
  | .div => some .div
  | .mod => some .mod
  | _ => Option.none
def addOp : Tok → Option BOp
  | .add => some .add
  | .sub => some .sub
  | _ => Option.none
def andOp : Tok → Option BOp
  | .and => some .and
  | _ => Option.none
def orOp : Tok → Option BOp
  | .or => some .or
  | _ => Option.none

/-- the tokens on which `p.concat()` continues -/
def concatStart : Tok → Bool
  | .dollar | .at | .not | .name _ | .num _ | .str _ | .lparen | .incr | .decr | .func _ => true
  | _ => false

def loopC (H : Parser) : Nat → Expr → List Tok → Res
  | 0, acc, ts => .ok (acc, ts)
  | n+1, acc, ts =>
    if concatStart (hd ts) then
      match H ts with
      | .ok (r, rest) => loopC H n (.binary .concat acc r) rest
      | .error x => .error x
    else .ok (acc, ts)

/-- comparison operators of `compare()` / `printCompare()` (`pc` = print context: no `>`) -/
def cmpOp (pc : Bool) : Tok → Option BOp
  | .cmp c => if pc && c == .gt then Option.none else some (.cmp c)
  | _ => Option.none

/-- the loop of `_in` -/
def loopIn : Nat → Expr → List Tok → Res
  | 0, acc, ts => .ok (acc, ts)
  | n+1, acc, ts =>
    match ts with
    | .in_ :: .name a :: rest => loopIn n (.inArr acc a) rest
    | .in_ :: _ => .error .syntax
    | _ => .ok (acc, ts)

def postP (b : Back) : Parser := fun ts => bindR (primaryF b ts) postT
def powP (b : Back) : Parser := fun ts => bindR (postP b ts) (powT b)
def mulT (b : Back) (e : Expr) (ts : List Tok) : Res := loopL (powP b) mulOp false ts.length e ts
def mulP (b : Back) : Parser := fun ts => bindR (powP b ts) (mulT b)
def addT (b : Back) (e : Expr) (ts : List Tok) : Res := loopL (mulP b) addOp false ts.length e ts
def addP (b : Back) : Parser := fun ts => bindR (mulP b ts) (addT b)
def concatT (b : Back) (e : Expr) (ts : List Tok) : Res := loopC (addP b) ts.length e ts
def concatP (b : Back) : Parser := fun ts => bindR (addP b ts) (concatT b)

def compareT (b : Back) (pc : Bool) (e : Expr) (ts : List Tok) : Res :=
  match ts with
  | [] => .ok (e, [])
  | t :: rest =>
    match cmpOp pc t with
    | some op => bindR (concatP b rest) fun r rest' => .ok (.binary op e r, rest')
    | Option.none => .ok (e, ts)
def compareP (b : Back) (pc : Bool) : Parser := fun ts => bindR (concatP b ts) (compareT b pc)

def matchT (b : Back) (pc : Bool) (e : Expr) (ts : List Tok) : Res :=
  match ts with
  | .match_ neg :: rest =>
    match hd rest with
    | .div => .error .unsupported
    | .asg .div => .error .unsupported
    | _ => bindR (compareP b pc rest) fun r rest' => .ok (.binary (if neg then .notMatch else .match_) e r, rest')
  | _ => .ok (e, ts)
def matchP (b : Back) (pc : Bool) : Parser := fun ts => bindR (compareP b pc ts) (matchT b pc)

def inT (e : Expr) (ts : List Tok) : Res := loopIn ts.length e ts
def inP (b : Back) (pc : Bool) : Parser := fun ts => bindR (matchP b pc ts) inT
def andT (b : Back) (pc : Bool) (e : Expr) (ts : List Tok) : Res := loopL (inP b pc) andOp true ts.length e ts
def andP (b : Back) (pc : Bool) : Parser := fun ts => bindR (inP b pc ts) (andT b pc)
def orT (b : Back) (pc : Bool) (e : Expr) (ts : List Tok) : Res := loopL (andP b pc) orOp true ts.length e ts
def orP (b : Back) (pc : Bool) : Parser := fun ts => bindR (andP b pc ts) (orT b pc)

/-- `_cond(higher, last)` after `higher()` -/
def condT (b : Back) (pc : Bool) (e : Expr) (ts : List Tok) : Res :=
  match ts with
  | .question :: rest =>
    bindR (b.expr (skipNl rest)) fun t rest1 =>
      match rest1 with
      | .colon :: rest2 =>
        bindR ((if pc then b.printExpr else b.expr) (skipNl rest2)) fun f rest3 => .ok (.cond e t f, rest3)
      | _ => .error .syntax
  | _ => .ok (e, ts)
def condP (b : Back) (pc : Bool) : Parser := fun ts => bindR (orP b pc ts) (condT b pc)

/-- what `p.primary()` does when `pendingGetlineLeft` is set: `| getline [lvalue]` -/
def pendingPrimary (b : Back) (left : Expr) (ts : List Tok) : Res :=
  match ts with
  | .pipe :: .getline :: rest =>
    match optLValue b rest with
    | .ok (some (target, rest')) => .ok (.getline left target .none, rest')
    | .ok Option.none => .ok (.getline left .none .none, rest)
    | .error x => .error x
  | _ => .error .syntax

/-- `p.getline()`: `cond [| getline [lvalue]]`, the second `cond()` call running all tails on the pending primary -/
def getlineP (b : Back) : Parser := fun ts =>
  bindR (condP b false ts) fun left rest =>
    match rest with
    | .pipe :: _ =>
      bindR (pendingPrimary b left rest) fun g r0 =>
      bindR (postT g r0) fun e r => bindR (powT b e r) fun e r => bindR (mulT b e r) fun e r =>
      bindR (addT b e r) fun e r => bindR (concatT b e r) fun e r => bindR (compareT b false e r) fun e r =>
      bindR (matchT b false e r) fun e r => bindR (inT e r) fun e r => bindR (andT b false e r) fun e r =>
      bindR (orT b false e r) fun e r => condT b false e r
    | _ => .ok (left, rest)

def backtrackOp : BOp → Bool
  | .and | .or | .match_ | .notMatch | .cmp _ => true
  | _ => false

/-- `_assign(higher)` after `higher()`, with the partial back-tracking for `1 && x = 1` -/
def assignT (b : Back) (pc : Bool) (e : Expr) (ts : List Tok) : Res :=
  match ts with
  | .asg op :: rest =>
    bindR ((if pc then b.printExpr else b.expr) rest) fun r rest' =>
      if e.isLValue then .ok (.assign op e r, rest')
      else match e with
        | .binary bop l r2 =>
          if r2.isLValue && backtrackOp bop then .ok (.binary bop l (.assign op r2 r), rest') else .error .syntax
        | _ => .error .syntax
  | _ => .ok (e, ts)

/-- `p.expr()` (pc = false) and `p.printExpr()` (pc = true) -/
def assignP (b : Back) (pc : Bool) : Parser := fun ts =>
  bindR (if pc then condP b true ts else getlineP b ts) (assignT b pc)

/-- level parsers by the number of the level in the POSIX table (1 assignment … 15 grouping);
    `pow()` serves unary (11) and `^` (12) -/
def lv (b : Back) (pc : Bool) : Nat → Parser
  | 0 | 1 => assignP b pc
  | 2 => condP b pc
  | 3 => orP b pc
  | 4 => andP b pc
  | 5 => inP b pc
  | 6 => matchP b pc
  | 7 => compareP b pc
  | 8 => concatP b
  | 9 => addP b
  | 10 => mulP b
  | 11 | 12 => powP b
  | 13 => postP b
  | _ => primaryF b

def step (b : Back) : Back :=
  { expr := assignP b false, printExpr := assignP b true, pow := powP b, primary := primaryF b }

def failP : Parser := fun _ => .error .syntax

/-- the knot: `ps n` can follow `n` nested backward edges -/
def ps : Nat → Back
  | 0 => { expr := failP, printExpr := failP, pow := failP, primary := failP }
  | n+1 => step (ps n)

/-- the expression parser: every backward edge is taken after consuming a token, so `#tokens` levels suffice -/
def parseExprN (n : Nat) (pc : Bool) (ts : List Tok) : Res := lv (ps n) pc 1 ts
def parseExpr (pc : Bool) (ts : List Tok) : Res := parseExprN ts.length pc ts

/-- the tokens at which `exprList` stops -/
def printStop : Tok → Bool
  | .newline | .semi | .rbrace | .rbracket | .rparen | .cmp .gt | .pipe | .append => true
  | _ => false

def isRedirect : Tok → Bool
  | .cmp .gt | .pipe | .append => true
  | _ => false

/-- `print` with at most one argument (`simpleStmt`, case PRINT): argument (`Expr.none` when there is none),
    redirection token and destination, remaining tokens -/
def parsePrint (ts : List Tok) : Except Err (Expr × Option (Tok × Expr) × List Tok) :=
  let arg : Res := if printStop (hd ts) then .ok (.none, ts) else parseExprN ts.length true ts
  match arg with
  | .error x => .error x
  | .ok (a, rest) =>
    if !printStop (hd rest) then (if hd rest == .comma then .error .unsupported else .error .syntax)
    else match rest with
      | t :: rest' =>
        if isRedirect t then
          match parseExprN ts.length false rest' with
          | .ok (d, rest'') => .ok (a, some (t, d), rest'')
          | .error x => .error x
        else .ok (a, Option.none, rest)
      | [] => .ok (a, Option.none, [])

/-! ## Rendering -/

def uopTok : UOp → Tok
  | .neg => .sub
  | .pos => .add
  | .not => .not

def bopToks : BOp → List Tok
  | .or => [.or] | .and => [.and] | .match_ => [.match_ false] | .notMatch => [.match_ true]
  | .cmp c => [.cmp c] | .concat => []
  | .add => [.add] | .sub => [.sub] | .mul => [.mul] | .div => [.div] | .mod => [.mod] | .pow => [.pow]

/-- tokens of a tree; parentheses come from `group` nodes only -/
def render : Expr → List Tok
  | .none => []
  | .num i => [.num i]
  | .var i => [.name i]
  | .str i => [.str i]
  | .group e => .lparen :: render e ++ [.rparen]
  | .unary op e => uopTok op :: render e
  | .binary op l r => render l ++ bopToks op ++ render r
  | .cond c t f => render c ++ .question :: render t ++ .colon :: render f
  | .assign op l r => render l ++ .asg op :: render r
  | .inArr e a => render e ++ [.in_, .name a]
  | .incr pre dec e =>
    if pre then (if dec then Tok.decr else Tok.incr) :: render e else render e ++ [if dec then Tok.decr else Tok.incr]
  | .field e => .dollar :: render e
  | .namedField e => .at :: render e
  | .index a i => .name a :: .lbracket :: render i ++ [.rbracket]
  | .getline cmd target file =>
    (if cmd = .none then [] else render cmd ++ [.pipe]) ++ .getline :: render target ++
    (if file = .none then [] else .cmp .lt :: render file)

/-- erase `group` nodes -/
def strip : Expr → Expr
  | .group e => strip e
  | .unary op e => .unary op (strip e)
  | .binary op l r => .binary op (strip l) (strip r)
  | .cond c t f => .cond (strip c) (strip t) (strip f)
  | .assign op l r => .assign op (strip l) (strip r)
  | .inArr e a => .inArr (strip e) a
  | .incr p d e => .incr p d (strip e)
  | .field e => .field (strip e)
  | .index a i => .index a (strip i)
  | .getline c t f => .getline (strip c) (strip t) (strip f)
  | .namedField e => .namedField (strip e)
  | e => e

def stripRes (r : Res) : Res :=
  match r with
  | .ok (e, rest) => .ok (strip e, rest)
  | .error x => .error x

/-! ## The POSIX table as data -/

inductive Assoc | left | right | non
  deriving DecidableEq, Repr

/-- level of a binary operator in the POSIX table (1 = assignment, lowest) -/
def BOp.prec : BOp → Nat
  | .or => 3 | .and => 4 | .match_ => 6 | .notMatch => 6 | .cmp _ => 7 | .concat => 8
  | .add => 9 | .sub => 9 | .mul => 10 | .div => 10 | .mod => 10 | .pow => 12

def BOp.assoc : BOp → Assoc
  | .pow => .right
  | .cmp _ => .non
  | .match_ | .notMatch => .non
  | _ => .left

/-- level required of the left / right operand -/
def BOp.lhs (op : BOp) : Nat := match op.assoc with | .left => op.prec | _ => op.prec + 1
def BOp.rhs (op : BOp) : Nat := match op.assoc with | .right => op.prec | _ => op.prec + 1

/-- level of the top operator of a tree in the table (15 = primary/grouping) -/
def Expr.prec : Expr → Nat
  | .assign .. => 1
  | .cond .. => 2
  | .binary op _ _ => op.prec
  | .inArr .. => 5
  | .getline .. => 1
  | .unary .. => 11
  | .incr .. => 13
  | .field _ => 14
  | .namedField _ => 14
  | _ => 15

/-- parenthesise `e` if the table does not let it stand at a position of level `q` -/
def fit (q : Nat) (e : Expr) : Expr := if q ≤ e.prec then e else .group e

/-- does the tree need parentheses of its own in a print argument (an unparenthesised `>` or `|` there is a redirection) -/
def printSpecial : Expr → Bool
  | .binary (.cmp .gt) _ _ => true
  | .getline c _ _ => c != .none
  | _ => false

/-- tokens with which the right operand of a concatenation must not start -/
def signStart : Tok → Bool
  | .add | .sub | .incr | .decr => true
  | _ => false

def isField : Expr → Bool
  | .field _ => true
  | .namedField _ => true
  | _ => false

mutual
/-- `renderMin` as a tree transformation: insert exactly the `group` nodes the table requires (`pc` = print argument context,
    which lasts until the first parenthesis). Input: a tree without `group` nodes. -/
def addMin (pc : Bool) : Expr → Expr
  | .unary op e => .unary op (fitMin pc 11 e)
  | .binary op l r =>
    if pc && printSpecial (.binary op l r) then .group (.binary op (fitMin false op.lhs l) (fitMin false op.rhs r))
    else if op == .concat && signStart (hd (render (fitMin pc op.rhs r))) then
      .binary op (fitMin pc op.lhs l) (.group (addMin false r))   -- `a -b` is a subtraction, `a ++b` a post-increment
    else .binary op (fitMin pc op.lhs l) (fitMin pc op.rhs r)
  | .cond c t f => .cond (fitMin pc 3 c) (addMin false t) (fitMin pc 2 f)
  | .assign op l r => .assign op (addMin false l) (addMin pc r)
  | .inArr e a => .inArr (fitMin pc 5 e) a
  | .incr true dec e => .incr true dec (addMin false e)
  | .incr false dec (.field e) =>   -- `$$x++` is `$($x++)`: the operand of `$` under a post-increment must be closed
    .incr false dec (.field (if isField e then .group (addMin false e) else fitMin false 14 e))
  | .incr false dec e => .incr false dec (addMin false e)
  | .field e => .field (fitMin false 14 e)
  | .namedField e => .namedField (fitMin false 14 e)
  | .index a i => .index a (addMin false i)
  | .getline c t f =>
    if pc && c != .none then .group (.getline (fitMin false 8 c) (addMin false t) (fitMin false 14 f))
    else .getline (fitMin false 8 c) (addMin false t) (fitMin false 14 f)
  | .group e => .group (addMin false e)
  | e => e
def fitMin (pc : Bool) (q : Nat) : Expr → Expr
  | e => if q ≤ e.prec then addMin pc e else .group (addMin false e)
end

def isAtom : Expr → Bool
  | .num _ | .var _ | .str _ | .none => true
  | _ => false

mutual
/-- `renderFull`: every non-atomic sub-expression parenthesised (lvalue operands of `=`, `++`, `--`, getline stay bare) -/
def addFull : Expr → Expr
  | .unary op e => .unary op (grp e)
  | .binary op l r => .binary op (grp l) (grp r)
  | .cond c t f => .cond (grp c) (grp t) (grp f)
  | .assign op l r => .assign op (addFull l) (grp r)
  | .inArr e a => .inArr (grp e) a
  | .incr p d e => .incr p d (addFull e)
  | .field e => .field (grp e)
  | .namedField e => .namedField (grp e)
  | .index a i => .index a (grp i)
  | .getline c t f => .getline (grp c) (addFull t) (grp f)
  | .group e => .group (addFull e)
  | e => e
def grp : Expr → Expr
  | e => if isAtom e then e else .group (addFull e)
end

def renderMin (pc : Bool) (e : Expr) : List Tok := render (addMin pc e)
def renderFull (e : Expr) : List Tok := render (grp e)

end GoawkModel.C04
