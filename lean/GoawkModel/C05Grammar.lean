import GoawkModel.C05
/-!
# C05 — the numeric-prefix grammar, stated declaratively (specification; not executed)

A *numeric text* is an optional sign followed by one of
* `dec`  : digits with an optional `.` (at least one digit in all), optionally an exponent `[eE][+-]?digit+`
* `hexE` : `0[xX]` hex digits with an optional `.` (at least one hex digit), then `[pP][+-]?digit+`
* `hex0` : the same without the `p` exponent (GoAWK then appends `p0` before calling `strconv`)
* `nan`, `inf` : the three letters, any case (a following `inity` is not part of the text: it does not change the value)
This is what `parseFloatPrefix` accepts at the start of a string once the ASCII blanks are skipped.
-/
namespace GoawkModel.C05
open GoawkModel

inductive Shape
  | dec | hexE | hex0 | nan | inf
  deriving DecidableEq, Repr

/-- an optional sign: nothing, or one byte `+` / `-` -/
def IsOptSign (sign : Bytes) : Prop := sign = [] ∨ ∃ c, sign = [c] ∧ isSign c = true

/-- an exponent part introduced by a byte satisfying `isX`: nothing, or `X [+-]? digit+` -/
def ExpShape (isX : UInt8 → Bool) (ex : Bytes) : Prop :=
  ex = [] ∨ ∃ e es d3, ex = e :: (es ++ d3) ∧ isX e = true ∧ IsOptSign es ∧ d3.all isDigit = true ∧ d3 ≠ []

/-- `digits* [.] digits*` over the digit class `dig`, at least one digit; without a dot there is no second run -/
def MantShape (dig : UInt8 → Bool) (d1 dot d2 : Bytes) : Prop :=
  d1.all dig = true ∧ d2.all dig = true ∧ ((dot = [] ∧ d2 = []) ∨ dot = [46]) ∧ (d1 ≠ [] ∨ d2 ≠ [])

def HasShape : Shape → Bytes → Prop
  | .dec, body => ∃ d1 dot d2 ex, body = d1 ++ dot ++ d2 ++ ex ∧ MantShape isDigit d1 dot d2 ∧ ExpShape isE ex
  | .hexE, body => ∃ b d1 dot d2 ex, body = 48 :: b :: (d1 ++ dot ++ d2 ++ ex) ∧ isX b = true ∧
      MantShape isHexDigit d1 dot d2 ∧ ExpShape isP ex ∧ ex ≠ []
  | .hex0, body => ∃ b d1 dot d2, body = 48 :: b :: (d1 ++ dot ++ d2) ∧ isX b = true ∧ MantShape isHexDigit d1 dot d2
  | .nan, body => body.length = 3 ∧ hasNaNPrefix body = true
  | .inf, body => body.length = 3 ∧ hasInfPrefix body = true

/-- `p` is a numeric text of shape `sh` -/
def NumTextS (sh : Shape) (p : Bytes) : Prop := ∃ sign body, p = sign ++ body ∧ IsOptSign sign ∧ HasShape sh body

def NumText (p : Bytes) : Prop := ∃ sh, NumTextS sh p

/-- `p` is the longest prefix of `u` that is a numeric text -/
def IsLongestNumPrefix (u p : Bytes) : Prop :=
  p <+: u ∧ NumText p ∧ ∀ q, q <+: u → NumText q → q.length ≤ p.length

/-- the text handed to `strconv.ParseFloat` for a numeric text -/
def strconvText : Shape → Bytes → Bytes
  | .hex0, p => p ++ p0
  | _, p => p

/-- what `parseFloatPrefix` returns for a numeric text of the given shape: a special value, or `strconv` on the text -/
def textRes : Shape → Bytes → Res
  | .nan, _ => .nan
  | .inf, p => .inf (p.head? == some 45)
  | sh, p => .conv (strconvText sh p)

/-- the back-off quirk of `parseHexFloatPrefix`: after the sign comes `0x` and at least one more byte, but no hex digit
(`0xg`, `-0x.`, `0x p`): the scanner commits to the hex branch and returns 0 although `0` / `-0` is a numeric text -/
def HexNoDigits (u : Bytes) : Prop :=
  ∃ sign b c rest, u = sign ++ 48 :: b :: c :: rest ∧ IsOptSign sign ∧ isX b = true ∧
    ((c :: rest).takeWhile isHexDigit = [] ∧
      ((optDot (c :: rest)).2.takeWhile isHexDigit = []))

end GoawkModel.C05
