import GoawkModel.Basic
/-!
# C18 — model of coverage annotation (`internal/cover/cover.go`: `Annotate`, `annotateStmts`, `trackStatement`) and a small
control-flow semantics to state transparency and exactness of the counts.

Statements carry an identifier (`id`) standing for their source position. `Stmts` is a Go slice of statements: a list plus the
"is the nil slice" flag that `annotateStmts` must preserve (a nil action body means "print the record").
Core Lean only.
-/
namespace GoawkModel.C18

inductive Jump | brk | cont | next | exit | ret
  deriving DecidableEq, Repr, Inhabited

mutual
inductive Stmt
  | simple (id : Nat)                            -- print, printf, expression, delete, getline …: no control transfer
  | jump (id : Nat) (j : Jump)                   -- break, continue, next / nextfile, exit, return
  | ifS (id : Nat) (body : Stmts) (els : Stmts)
  | whileS (id : Nat) (body : Stmts)
  | forS (id : Nat) (body : Stmts)
  | forIn (id : Nat) (body : Stmts)
  | doWhile (id : Nat) (body : Stmts)
  | block (id : Nat) (body : Stmts)
  | counter (k : Nat)                            -- `__COVER[k]++` / `__COVER[k] = 1`, inserted by annotate
inductive Stmts
  | nil (goNil : Bool)                           -- end of list; the flag is the slice's nil-ness when the list is empty
  | cons (s : Stmt) (rest : Stmts)
end

instance : Inhabited Stmt := ⟨.simple 0⟩
instance : Inhabited Stmts := ⟨.nil true⟩

/-- one tracked block: the identifiers of the top-level statements of the run, in order -/
structure Block where
  ids : List Nat
  deriving Repr, DecidableEq

def Stmt.id : Stmt → Nat
  | .simple i | .jump i _ | .ifS i _ _ | .whileS i _ | .forS i _ | .forIn i _ | .doWhile i _ | .block i _ => i
  | .counter k => k

/-- does the statement end a tracked run (the `blockEnds` flag of `annotateStmts`) -/
def Stmt.isCompound : Stmt → Bool
  | .ifS .. | .whileS .. | .forS .. | .forIn .. | .doWhile .. | .block .. => true
  | _ => false

/-- put a list of statements in front of a `Stmts` -/
def prepend : List Stmt → Stmts → Stmts
  | [], t => t
  | s :: r, t => .cons s (prepend r t)

/-- state of the annotator: number of blocks tracked so far, and the blocks (in order) -/
structure AnnState where
  blocks : List Block
  deriving Repr

def AnnState.track (st : AnnState) (run : List Stmt) : AnnState × Stmt :=
  (⟨st.blocks ++ [⟨run.map Stmt.id⟩]⟩, .counter (st.blocks.length + 1))

/-- a list is "the nil slice" -/
def Stmts.isGoNil : Stmts → Bool
  | .nil f => f
  | .cons _ _ => false

mutual
/-- the `switch s := stmt.(type)` of `annotateStmts`: annotate the bodies of a compound statement -/
def annStmt (st : AnnState) : Stmt → AnnState × Stmt
  | .ifS i b e =>
    let (st1, b') := if b.isGoNil then (st, b) else annRun st [] b
    let (st2, e') := if e.isGoNil then (st1, e) else annRun st1 [] e
    (st2, .ifS i b' e')
  | .whileS i b => let (st1, b') := if b.isGoNil then (st, b) else annRun st [] b; (st1, .whileS i b')
  | .forS i b => let (st1, b') := if b.isGoNil then (st, b) else annRun st [] b; (st1, .forS i b')
  | .forIn i b => let (st1, b') := if b.isGoNil then (st, b) else annRun st [] b; (st1, .forIn i b')
  | .doWhile i b => let (st1, b') := if b.isGoNil then (st, b) else annRun st [] b; (st1, .doWhile i b')
  | .block i b => let (st1, b') := if b.isGoNil then (st, b) else annRun st [] b; (st1, .block i b')
  | s => (st, s)
/-- the loop of `annotateStmts`; `run` = `trackedBlockStmts` (already annotated statements of the current run) -/
def annRun (st : AnnState) (run : List Stmt) : Stmts → AnnState × Stmts
  | .nil _ =>
    if run.isEmpty then (st, .nil false)
    else
      let (st1, c) := st.track run
      (st1, .cons c (prepend run (.nil false)))
  | .cons s rest =>
    let (st1, s') := annStmt st s
    if s.isCompound then
      let (st2, c) := st1.track (run ++ [s'])
      let (st3, rest') := annRun st2 [] rest
      (st3, .cons c (prepend (run ++ [s']) rest'))
    else annRun st1 (run ++ [s']) rest
end

/-- `annotateStmts`: nil stays nil (an action without body keeps meaning "print"), otherwise the loop -/
def annStmts (st : AnnState) (ss : Stmts) : AnnState × Stmts :=
  if ss.isGoNil then (st, ss) else annRun st [] ss

/-- `Annotate`: Begin blocks, actions, End blocks, function bodies — in that order, one shared block list -/
def annotate : List Stmts → AnnState → AnnState × List Stmts
  | [], st => (st, [])
  | b :: rest, st =>
    let (st1, b') := annStmts st b
    let (st2, rest') := annotate rest st1
    (st2, b' :: rest')

/-! ## erasing the inserted statements -/

mutual
def eraseStmt : Stmt → Stmt
  | .ifS i b e => .ifS i (eraseStmts b) (eraseStmts e)
  | .whileS i b => .whileS i (eraseStmts b)
  | .forS i b => .forS i (eraseStmts b)
  | .forIn i b => .forIn i (eraseStmts b)
  | .doWhile i b => .doWhile i (eraseStmts b)
  | .block i b => .block i (eraseStmts b)
  | s => s
def eraseStmts : Stmts → Stmts
  | .nil f => .nil f
  | .cons (.counter _) rest => eraseStmts rest
  | .cons s rest => .cons (eraseStmt s) (eraseStmts rest)
end

-- normal form: the terminator flag of a non-empty list is `false` (only an empty list can be the nil slice)
mutual
def Stmt.NF : Stmt → Bool
  | .ifS _ b e => Stmts.NF true b && Stmts.NF true e
  | .whileS _ b | .forS _ b | .forIn _ b | .doWhile _ b | .block _ b => Stmts.NF true b
  | _ => true
def Stmts.NF (atHead : Bool) : Stmts → Bool
  | .nil f => atHead || !f
  | .cons s r => Stmt.NF s && Stmts.NF false r
end

/-! ## identifiers -/

mutual
def stmtIds : Stmt → List Nat
  | .simple i => [i]
  | .jump i _ => [i]
  | .ifS i b e => i :: (stmtsIds b ++ stmtsIds e)
  | .whileS i b => i :: stmtsIds b
  | .forS i b => i :: stmtsIds b
  | .forIn i b => i :: stmtsIds b
  | .doWhile i b => i :: stmtsIds b
  | .block i b => i :: stmtsIds b
  | .counter _ => []
def stmtsIds : Stmts → List Nat
  | .nil _ => []
  | .cons s r => stmtIds s ++ stmtsIds r
end

mutual
def hasCounterStmt : Stmt → Bool
  | .ifS _ b e => hasCounter b || hasCounter e
  | .whileS _ b | .forS _ b | .forIn _ b | .doWhile _ b | .block _ b => hasCounter b
  | .counter _ => true
  | _ => false
def hasCounter : Stmts → Bool
  | .nil _ => false
  | .cons s r => hasCounterStmt s || hasCounter r
end

/-! ## printing order (what `-d` shows), for the correspondence check -/

mutual
def flatStmt : Stmt → List String
  | .simple i => [s!"S{i}"]
  | .jump i j => [s!"J{i}:" ++ (match j with | .brk => "break" | .cont => "continue" | .next => "next" | .exit => "exit" | .ret => "return")]
  | .ifS i b e => s!"S{i}" :: "{" :: (flatStmts b ++ ["}"] ++ (if e.isGoNil then [] else "else{" :: (flatStmts e ++ ["}"])))
  | .whileS i b => s!"S{i}" :: "{" :: (flatStmts b ++ ["}"])
  | .forS i b => s!"S{i}" :: "{" :: (flatStmts b ++ ["}"])
  | .forIn i b => s!"S{i}" :: "{" :: (flatStmts b ++ ["}"])
  | .doWhile i b => "do{" :: (flatStmts b ++ ["}", s!"S{i}"])
  | .block i b => s!"B{i}" :: "{" :: (flatStmts b ++ ["}"])
  | .counter k => [s!"C{k}"]
def flatStmts : Stmts → List String
  | .nil _ => []
  | .cons s r => flatStmt s ++ flatStmts r
end

/-! ## a control-flow semantics: which statements start, in which order

Expressions are abstracted by a script: every evaluation of a condition takes the next number of the script (0 = false;
a `for … in` takes the number of iterations). A counter statement is an event of its own and consumes nothing — the frame
assumption "the inserted statement touches only `__COVER`, which the program does not mention". -/

inductive Ev | start (id : Nat) | ctr (k : Nat)
  deriving DecidableEq, Repr

inductive Signal | normal | brk | cont | next | exit | ret
  deriving DecidableEq, Repr

structure Run where
  sig : Signal
  script : List Nat
  trace : List Ev
  deriving DecidableEq, Repr

def nextDecision : List Nat → Nat × List Nat
  | [] => (0, [])
  | d :: r => (d, r)

def Jump.signal : Jump → Signal
  | .brk => .brk | .cont => .cont | .next => .next | .exit => .exit | .ret => .ret

mutual
/-- fuel bounds the depth of the evaluation (every call takes one unit); `none` = out of fuel -/
def execStmt (fuel : Nat) (s : Stmt) (sc : List Nat) (tr : List Ev) : Option Run :=
  match fuel with
  | 0 => none
  | fuel + 1 =>
    match s with
    | .simple i => some ⟨.normal, sc, tr ++ [.start i]⟩
    | .jump i j => some ⟨j.signal, sc, tr ++ [.start i]⟩
    | .counter k => some ⟨.normal, sc, tr ++ [.ctr k]⟩
    | .block i b => execStmts fuel b sc (tr ++ [.start i])
    | .ifS i b e =>
      if (nextDecision sc).1 != 0 then execStmts fuel b (nextDecision sc).2 (tr ++ [.start i])
      else execStmts fuel e (nextDecision sc).2 (tr ++ [.start i])
    | .whileS i b => loop fuel b true sc (tr ++ [.start i])
    | .forS i b => loop fuel b true sc (tr ++ [.start i])
    | .doWhile i b => loop fuel b false sc (tr ++ [.start i])
    | .forIn i b => iter fuel b (nextDecision sc).1 (nextDecision sc).2 (tr ++ [.start i])
def execStmts (fuel : Nat) (ss : Stmts) (sc : List Nat) (tr : List Ev) : Option Run :=
  match fuel with
  | 0 => none
  | fuel + 1 =>
    match ss with
    | .nil _ => some ⟨.normal, sc, tr⟩
    | .cons s rest =>
      match execStmt fuel s sc tr with
      | none => none
      | some r => if r.sig = .normal then execStmts fuel rest r.script r.trace else some r
/-- `while`/`for` (test first) and `do … while` (body first) -/
def loop (fuel : Nat) (b : Stmts) (testFirst : Bool) (sc : List Nat) (tr : List Ev) : Option Run :=
  match fuel with
  | 0 => none
  | fuel + 1 =>
    if testFirst = true ∧ (nextDecision sc).1 = 0 then some ⟨.normal, (nextDecision sc).2, tr⟩ else
    match execStmts fuel b (if testFirst then (nextDecision sc).2 else sc) tr with
    | none => none
    | some r =>
      if r.sig = .brk then some ⟨.normal, r.script, r.trace⟩
      else if r.sig = .normal ∨ r.sig = .cont then
        (if testFirst then loop fuel b true r.script r.trace
         else if (nextDecision r.script).1 != 0 then loop fuel b false (nextDecision r.script).2 r.trace
         else some ⟨.normal, (nextDecision r.script).2, r.trace⟩)
      else some r
def iter (fuel : Nat) (b : Stmts) (n : Nat) (sc : List Nat) (tr : List Ev) : Option Run :=
  match fuel with
  | 0 => none
  | fuel + 1 =>
    match n with
    | 0 => some ⟨.normal, sc, tr⟩
    | n + 1 =>
      match execStmts fuel b sc tr with
      | none => none
      | some r =>
        if r.sig = .brk then some ⟨.normal, r.script, r.trace⟩
        else if r.sig = .normal ∨ r.sig = .cont then iter fuel b n r.script r.trace
        else some r
end

def eraseTrace (tr : List Ev) : List Ev := tr.filter fun | .ctr _ => false | _ => true

def eraseRun (r : Run) : Run := ⟨r.sig, r.script, eraseTrace r.trace⟩

def countCtr (k : Nat) (tr : List Ev) : Nat := tr.count (.ctr k)
def countStart (i : Nat) (tr : List Ev) : Nat := tr.count (.start i)

end GoawkModel.C18
