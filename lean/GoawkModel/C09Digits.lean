import GoawkModel.C09
/-!
Exact decimal digit generation for binary64 values (`m * 2^e`), styles `e E f g G` with an explicit precision, as both
`strconv.AppendFloat` and C `printf` produce them (correct rounding, ties to even on the exact value). Used by the driver to
instantiate the `DigitGen` parameter of the C09 model; the theorems never look inside it.
-/
namespace GoawkModel.C09
open GoawkModel

/-- value = n/d -/
def ratOf (m : Nat) (e : Int) : Nat × Nat :=
  if e ≥ 0 then (m * 2 ^ e.toNat, 1) else (m, 2 ^ (-e).toNat)

def scale10 (k : Int) (n d : Nat) : Nat × Nat :=
  if k ≥ 0 then (n, d * 10 ^ k.toNat) else (n * 10 ^ (-k).toNat, d)

def roundHalfEven (a b : Nat) : Nat :=
  let q := a / b
  let r := a % b
  if 2 * r > b then q + 1 else if 2 * r < b then q else (if q % 2 == 1 then q + 1 else q)

/-- `p ≥ 1` significant digits of a non-zero value and its decimal exponent `x` (value ≈ d.ddd × 10^x) -/
def sigDigits (m : Nat) (e : Int) (p : Nat) : Nat × Int :=
  let (n, d) := ratOf m e
  let est : Int := (((Nat.log2 n : Int) - (Nat.log2 d : Int)) * 30103) / 100000
  let adjust (x : Int) : Int :=
    let (a, b) := scale10 x n d
    if a < b then x - 1 else if a ≥ 10 * b then x + 1 else x
  let x := adjust (adjust (adjust est))
  let (a, b) := scale10 (x - (p : Int) + 1) n d
  let q := roundHalfEven a b
  if q == 10 ^ p then (10 ^ (p - 1), x + 1) else (q, x)

def padLeftZeros (n : Nat) (b : Bytes) : Bytes := zeros (n - b.length) ++ b

def stripTrailingZeros (b : Bytes) : Bytes := (b.reverse.dropWhile (· == 48)).reverse

def expText (upper : Bool) (x : Int) : Bytes :=
  let ax := x.natAbs
  [if upper then 69 else 101, if x < 0 then 45 else 43] ++ (if ax < 10 then [48] else []) ++ decimal ax

/-- `%.{p}e` -/
def genE (upper sharp : Bool) (p : Nat) (m : Nat) (e : Int) : Bytes :=
  if m = 0 then
    48 :: (if p = 0 then (if sharp then [46] else []) else 46 :: zeros p) ++ expText upper 0
  else
    let (q, x) := sigDigits m e (p + 1)
    let ds := decimal q
    ds.take 1 ++ (if p = 0 then (if sharp then [46] else []) else 46 :: ds.drop 1) ++ expText upper x

/-- `%.{p}f` -/
def genF (sharp : Bool) (p : Nat) (m : Nat) (e : Int) : Bytes :=
  let (n, d) := ratOf m e
  let q := roundHalfEven (n * 10 ^ p) d
  let ds := padLeftZeros (p + 1) (decimal q)
  let k := ds.length - p
  ds.take k ++ (if p = 0 then (if sharp then [46] else []) else 46 :: ds.drop k)

/-- `%.{p}g`; with `#` trailing zeros stay and the point is always there -/
def genG (upper sharp : Bool) (p : Nat) (m : Nat) (e : Int) : Bytes :=
  let p := if p = 0 then 1 else p
  let strip (b : Bytes) : Bytes := if sharp then b else stripTrailingZeros b
  let point (frac : Bytes) : Bytes := if frac.isEmpty && !sharp then [] else 46 :: frac
  if m = 0 then 48 :: point (strip (zeros (p - 1)))
  else
    let (q, x) := sigDigits m e p
    let ds := decimal q
    if x < -4 || x ≥ (p : Int) then
      ds.take 1 ++ point (strip (ds.drop 1)) ++ expText upper x
    else if x ≥ 0 then
      ds.take (x.toNat + 1) ++ point (strip (ds.drop (x.toNat + 1)))
    else
      [48] ++ point (strip (zeros ((-x).toNat - 1) ++ ds))

def exactGen : DigitGen where
  gen verb sharp p m e :=
    if verb = 101 then genE false sharp p m e
    else if verb = 69 then genE true sharp p m e
    else if verb = 102 then genF sharp p m e
    else if verb = 103 then genG false sharp p m e
    else if verb = 71 then genG true sharp p m e
    else []

/-- decode IEEE-754 binary64 bits -/
def ofBits (b : Nat) : F64 :=
  let s := b / 2 ^ 63 % 2 == 1
  let ex : Nat := b / 2 ^ 52 % 2048
  let fr := b % 2 ^ 52
  if ex == 2047 then (if fr == 0 then .inf s else .nan s)
  else if ex == 0 then .fin s fr (-1074)
  else .fin s (fr + 2 ^ 52) (Int.ofNat ex - 1075)

end GoawkModel.C09
