import GoawkModel.Basic
/-!
C08 models, part 1: the CSV writer and the byte-level RFC-4180 reader (the *specification* reader).

* `csvWrite sep fs` — what `print` in CSV/TSV output mode writes for the field list `fs` (`interp/io.go` `printArgs` →
  `writeCSV` → Go's `encoding/csv.Writer.Write` with `Comma = sep`, `UseCRLF = false`): `fieldNeedsQuotes`, quote doubling,
  separator between fields, one `\n` at the end; the record of one empty field is written as `""`. `joinFields`
  (`interp/interp.go`) is the same text without the final newline.
* `csvRecords cfg data` — a direct recursive reader: RFC 4180 records with lenient quotes (what `encoding/csv.Reader` with
  `LazyQuotes`, `FieldsPerRecord = -1` and the given `Comment` yields), each record with its fields and its `$0`
  exactly as `csvSplitter.scan` computes them when the whole input is in the buffer at EOF.

Separator and comment character are carried as their UTF-8 encodings (`Bytes`); `comment = []` means "no comment character".
For a valid rune `r` (not `utf8.RuneError`) `bytes.IndexRune(line, r)` is `bytes.Index(line, encode r)` and
`nextRune(line) == r` is `encode r` being a prefix of `line`, which is how the code's rune tests are rendered here.
-/
namespace GoawkModel.C08

structure Cfg where
  sep : Bytes
  comment : Bytes := []
  header : Bool := false
deriving Repr, DecidableEq

/-! ## Writer -/

/-- `sub` occurs in `s` as a contiguous block (`strings.ContainsRune` / the byte loop of `fieldNeedsQuotes`) -/
def containsSub (sub : Bytes) : Bytes → Bool
  | [] => sub.isPrefixOf []
  | b :: r => sub.isPrefixOf (b :: r) || containsSub sub r

/-- `unicode.IsSpace(r1)` for `r1` = the first rune of the field: ASCII `\t \n \v \f \r` and space, U+0085, U+00A0 and
the White_Space runes above Latin-1 (U+1680, U+2000–U+200A, U+2028, U+2029, U+202F, U+205F, U+3000), each recognised by its
(unique, valid) UTF-8 encoding at the start of the field. -/
def firstIsSpace : Bytes → Bool
  | [] => false
  | b :: r =>
    if b = 9 ∨ b = 10 ∨ b = 11 ∨ b = 12 ∨ b = 13 ∨ b = 32 then true
    else if b = 0xC2 then (match r with | c :: _ => c = 0x85 || c = 0xA0 | [] => false)
    else if b = 0xE1 then (match r with | c :: d :: _ => c = 0x9A && d = 0x80 | _ => false)
    else if b = 0xE2 then
      (match r with
       | c :: d :: _ =>
         (c = 0x80 && ((0x80 ≤ d && d ≤ 0x8A) || d = 0xA8 || d = 0xA9 || d = 0xAF)) || (c = 0x81 && d = 0x9F)
       | _ => false)
    else if b = 0xE3 then (match r with | c :: d :: _ => c = 0x80 && d = 0x80 | _ => false)
    else false

/-- `(*csv.Writer).fieldNeedsQuotes` -/
def needsQuotes (sep f : Bytes) : Bool :=
  if f = [] then false
  else if f = [92, 46] then true                      -- the field `\.`
  else if f.contains 10 || f.contains 13 || f.contains 34 || containsSub sep f then true
  else firstIsSpace f

/-- body of a quoted field: `"` doubled, everything else verbatim (`UseCRLF = false`) -/
def escape : Bytes → Bytes
  | [] => []
  | b :: r => if b = 34 then 34 :: 34 :: escape r else b :: escape r

def encodeField (sep f : Bytes) : Bytes :=
  if needsQuotes sep f then 34 :: (escape f ++ [34]) else f

/-- the fields joined by the separator as `encoding/csv.Writer.Write` does, no line terminator -/
def joinRaw (sep : Bytes) : List Bytes → Bytes
  | [] => []
  | [f] => encodeField sep f
  | f :: fs => encodeField sep f ++ sep ++ joinRaw sep fs

/-- `joinFields` in CSV/TSV output mode = what `writeCSV` writes, without the line terminator: a record of exactly one
empty field is written as `""` (csv.Writer would write an empty line, which is not a record when read back); every other
record goes through `csv.Writer`. -/
def joinFields (sep : Bytes) (fs : List Bytes) : Bytes :=
  if fs = [[]] then [34, 34] else joinRaw sep fs

/-- one `print` in CSV/TSV output mode -/
def csvWrite (sep : Bytes) (fs : List Bytes) : Bytes := joinFields sep fs ++ [10]

/-! ## Reader -/

/-- how a field ended: at a separator, at a line break (consumed), or at the end of the input -/
inductive End where
  | sep | eol | eof
deriving Repr, DecidableEq

/-- A non-quoted field starting at `r`: its bytes run to the first separator in the line or to the end of the line
(`\n` or `\r\n` stripped). Returns the field, the unread rest, and how it ended. -/
def unq (sep : Bytes) : Bytes → Bytes × Bytes × End
  | [] => ([], [], .eof)
  | b :: r =>
    if sep.isPrefixOf (b :: r) then ([], (b :: r).drop sep.length, .sep)
    else if b = 10 then ([], r, .eol)
    else if b = 13 ∧ r.head? = some 10 then ([], r.tail, .eol)
    else
      let (f, r', e) := unq sep r
      (b :: f, r', e)

/-- The rest of a quoted field (the opening quote already consumed). `""` is a quote; `"` + separator ends the field;
`"` + line break or end of input ends the record; any other `"` is kept (lenient quotes); `\r\n` inside becomes `\n`
(the flag reports that this happened: `tokenHasCR`); the end of the input ends the field. -/
def quo (sep : Bytes) : Bytes → Bytes × Bytes × End × Bool
  | [] => ([], [], .eof, false)
  | b :: r =>
    if b = 34 then
      match r with
      | [] => ([], [], .eof, false)
      | c :: r' =>
        if c = 34 then
          let (f, r'', e, cr) := quo sep r'
          (34 :: f, r'', e, cr)
        else if sep.isPrefixOf (c :: r') then ([], (c :: r').drop sep.length, .sep, false)
        else if c = 10 then ([], r', .eol, false)
        else if c = 13 ∧ r'.head? = some 10 then ([], r'.tail, .eol, false)
        else
          let (f, r'', e, cr) := quo sep (c :: r')
          (34 :: f, r'', e, cr)
    else if b = 13 then
      match r with
      | c :: r' =>
        if c = 10 then
          let (f, r'', e, _) := quo sep r'
          (10 :: f, r'', e, true)
        else
          let (f, r'', e, cr) := quo sep (c :: r')
          (13 :: f, r'', e, cr)
      | [] => ([13], [], .eof, false)
    else
      let (f, r', e, cr) := quo sep r
      (b :: f, r', e, cr)

/-- one field starting at `r` -/
def field (sep : Bytes) (r : Bytes) : Bytes × Bytes × End × Bool :=
  match r with
  | b :: t => if b = 34 then quo sep t else
      let (f, r', e) := unq sep r
      (f, r', e, false)
  | [] => ([], [], .eof, false)

/-- the fields of the record starting at `r`: (fields, unread rest, ended at end of input, tokenHasCR).
`fuel` bounds the number of fields; `r.length + 1` always suffices (every separator consumes a byte). -/
def fieldsFuel (sep : Bytes) : Nat → Bytes → List Bytes × Bytes × Bool × Bool
  | 0, r => ([], r, true, false)
  | n + 1, r =>
    match field sep r with
    | (f, r', .sep, cr) =>
      let (fs, r'', eof, cr') := fieldsFuel sep n r'
      (f :: fs, r'', eof, cr || cr')
    | (f, r', .eol, cr) => ([f], r', false, cr)
    | (f, r', .eof, cr) => ([f], r', true, cr)

/-- drop the rest of the current line including its `\n` -/
def dropLine : Bytes → Bytes
  | [] => []
  | b :: r => if b = 10 then r else dropLine r

/-- `lenNewline` -/
def lenNewline (b : Bytes) : Nat :=
  match b.reverse with
  | 10 :: 13 :: _ => 2
  | 10 :: _ => 1
  | _ => 0

def stripNewline (b : Bytes) : Bytes := b.take (b.length - lenNewline b)

def removeCR (b : Bytes) : Bytes := b.filter (· ≠ 13)

/-- `$0` of a record from the bytes it consumed (`origData[skip:advance]`): the final `\r` that `readLine` drops before EOF
is still counted in `advance`; the line terminator is cut; if a quoted field contained `\r\n` every `\r` is deleted. -/
def recordText (raw : Bytes) (eof crDropped hasCR : Bool) : Bytes :=
  let raw := if eof && crDropped then raw ++ [13] else raw
  let t := stripNewline raw
  if hasCR then removeCR t else t

/-- The records of `r` (already without BOM and without the `\r` that is dropped before EOF): comment lines and empty
lines are skipped only where a record could start. `fuel` bounds the number of lines + records; `r.length + 1` suffices. -/
def recordsFuel (cfg : Cfg) (crDropped : Bool) : Nat → Bytes → List (List Bytes × Bytes)
  | 0, _ => []
  | n + 1, r =>
    if r = [] then []
    else if cfg.comment ≠ [] ∧ cfg.comment.isPrefixOf r then recordsFuel cfg crDropped n (dropLine r)
    else if r.head? = some 10 then recordsFuel cfg crDropped n r.tail
    else if r.head? = some 13 ∧ r.tail.head? = some 10 then recordsFuel cfg crDropped n r.tail.tail
    else
      match fieldsFuel cfg.sep (r.length + 1) r with
      | (fs, r', eof, cr) =>
        (fs, recordText (r.take (r.length - r'.length)) eof crDropped cr) :: recordsFuel cfg crDropped n r'

def bom : Bytes := [0xEF, 0xBB, 0xBF]

def dropBOM (d : Bytes) : Bytes := if bom.isPrefixOf d then d.drop 3 else d

/-- `readLine`: "for backwards compatibility, drop trailing \r before EOF" -/
def dropFinalCR (d : Bytes) : Bytes × Bool :=
  if d.getLast? = some 13 then (d.dropLast, true) else (d, false)

/-- every row of the input (header row included), after the BOM: fields and `$0` -/
def csvRows (cfg : Cfg) (data : Bytes) : List (List Bytes × Bytes) :=
  let (d, cr) := dropFinalCR (dropBOM data)
  recordsFuel cfg cr (d.length + 1) d

/-- the records a program sees: in header mode the first row only names the fields -/
def csvRecords (cfg : Cfg) (data : Bytes) : List (List Bytes × Bytes) :=
  if cfg.header then (csvRows cfg data).drop 1 else csvRows cfg data

/-- the header row's fields (`FIELDS` / `@"name"`), if header mode is on and there is a row -/
def csvHeader (cfg : Cfg) (data : Bytes) : Option (List Bytes) :=
  if cfg.header then (csvRows cfg data).head?.map Prod.fst else none

/-- field lists only, no comment character, no header: the reader of the round-trip theorem -/
def csvRead (sep : Bytes) (data : Bytes) : List (List Bytes) :=
  (csvRecords { sep := sep } data).map Prod.fst

/-- what re-parsing a `$0` value (assignment to `$0`, or `split(s, a)` in CSV mode) yields: the fields of the first record
of the text read as a complete input; no record ⇒ no fields. -/
def reparse (cfg : Cfg) (line : Bytes) : List Bytes :=
  match csvRows { cfg with header := false } line with
  | (fs, _) :: _ => fs
  | [] => []

/-! ## Separator validity -/

def isCont (b : UInt8) : Bool := 0x80 ≤ b && b < 0xC0

/-- shape of the UTF-8 encoding of a rune accepted by `validCSVSeparator`: a lead byte that is not a continuation byte and
is none of `"`, `\r`, `\n`, followed by continuation bytes only -/
def validSep : Bytes → Bool
  | [] => false
  | h :: t => !isCont h && h ≠ 34 && h ≠ 13 && h ≠ 10 && t.all isCont

end GoawkModel.C08
