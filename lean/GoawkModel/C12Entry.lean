import GoawkModel.C12
/-!
# C12 — the entry points and `executeAll`

Every public way of running a parsed program (`interp.ExecProgram`, `Interpreter.Execute`, `Interpreter.ExecuteContext` with
`context.Background()`, `context.TODO()`, or any other context) ends in `executeAll` (interp/interp.go): BEGIN, then the
pattern-action loop, then END; a phase that stops with a run-time error ends the run, and the error reported is the phase's
own — except under `ExecuteContext` with a context that is done at that moment, where the context's error wins.
The entry points differ only in `p.checkCtx`.
-/
namespace GoawkModel.C12

/-- the public ways of running a parsed program; `ctxOther` = `ExecuteContext` with a context that is neither
`context.Background()` nor `context.TODO()` (WithTimeout, WithCancel, WithValue, …) -/
inductive Entry | execProgram | execute | ctxBackground | ctxTodo | ctxOther
deriving DecidableEq, Repr

/-- `p.checkCtx` as each entry point sets it (interp/newexecute.go: Execute, ExecuteContext; ExecProgram leaves the zero value) -/
def Entry.checkCtx : Entry → Bool
  | .ctxOther => true
  | _ => false

/-- the first run-time error among the effects of one operation -/
def firstErr : List Effect → Option Err
  | [] => none
  | .error e :: _ => some e
  | _ :: es => firstErr es

/-- run a list of operations: one group of effects per executed operation, the state afterwards, and the error that ended
the list early (if one did) — `p.execute` of a block, seen through its I/O operations -/
def runOps (f : Flags) : St → List IoOp → List (List Effect) × St × Option Err
  | s, [] => ([], s, none)
  | s, op :: ops =>
    let r := step f s op
    match firstErr r.1 with
    | some e => ([r.1], r.2, some e)
    | none => let q := runOps f r.2 ops; (r.1 :: q.1, q.2)

/-- a program's I/O operations by phase; `hasRest`: there is a pattern-action rule or an END block (otherwise `executeAll`
returns after BEGIN without reading input) -/
structure Phases where
  begin : List IoOp
  hasRest : Bool
  endOps : List IoOp
deriving Repr

inductive Outcome
  | finished            -- err == nil
  | failed (e : Err)    -- the phase's own error
  | ctxFailed           -- the context's error (cancelled / deadline exceeded)
deriving DecidableEq, Repr

/-- the three identical blocks of `executeAll`: `if p.checkCtx { if ctxErr := p.checkContextNow(); ctxErr != nil { return 0, ctxErr } }; return 0, err`;
`ctxDone` = what `checkContextNow` finds -/
def report (e : Entry) (ctxDone : Bool) (err : Err) : Outcome :=
  if e.checkCtx && ctxDone then .ctxFailed else .failed err

/-- `executeAll` -/
def executeAll (e : Entry) (ctxDone : Bool) (f : Flags) (s : St) (p : Phases) : List (List Effect) × Outcome :=
  match runOps f s p.begin with
  | (g1, _, some err) => (g1, report e ctxDone err)
  | (g1, s1, none) =>
    if !p.hasRest then (g1, .finished)
    else match runOps f s1 [.mainLoop] with
      | (g2, _, some err) => (g1 ++ g2, report e ctxDone err)
      | (g2, s2, none) =>
        match runOps f s2 p.endOps with
        | (g3, _, some err) => (g1 ++ g2 ++ g3, report e ctxDone err)
        | (g3, _, none) => (g1 ++ g2 ++ g3, .finished)

end GoawkModel.C12
