import GoawkModel.Basic
import GoawkModel.Generated.C03Lex
/-!
C03 — executable model of `lexer.Lexer` (/repo/lexer/lexer.go): the position bookkeeping (`offset`, `ch`, `pos`, `nextPos`,
`hadSpace`, `lastTok`), `next`, `unread`, `choice`, `scan`, `scanRegex`, `parseString`.  Core Lean only.

Every Go loop is a fuel-indexed structural recursion; the top level passes `src.length + 2` and `Proofs/C03*.lean` shows the fuel
is never the reason a loop stops.  Positions are natural numbers: Go's `int` subtraction (`pos.Column--`, `pos.Column -= 2`) is
truncated here, which is harmless because the theorems show every reported column equals a true column (≥ 1), which a truncated
result (0) could not.
-/
namespace GoawkModel.C03
open GoawkModel
open GoawkModel.Generated.C03Lex

structure Pos where
  line : Nat
  col : Nat
deriving DecidableEq, Repr, Inhabited

/-- the mutable fields of `lexer.Lexer` (`src` is a parameter of every function) -/
structure St where
  offset : Nat
  ch : UInt8
  pos : Pos
  nextPos : Pos
  hadSpace : Bool
  lastTok : Nat
deriving DecidableEq, Repr, Inhabited

def byteAt (src : Bytes) (i : Nat) : UInt8 := src.getD i 0

/-- one step of the position rule of `next()`: newline → next line, column 1; carriage return → unchanged; else column + 1 -/
def stepPos (p : Pos) (b : UInt8) : Pos :=
  if b = 10 then ⟨p.line + 1, 1⟩ else if b ≠ 13 then ⟨p.line, p.col + 1⟩ else p

/-- `func (l *Lexer) next()` -/
def next (src : Bytes) (s : St) : St :=
  let s := { s with pos := s.nextPos }
  if s.offset ≥ src.length then
    if s.ch ≠ 0 then { s with ch := 0, offset := s.offset + 1 } else s
  else
    let ch := byteAt src s.offset
    { s with nextPos := stepPos s.nextPos ch, ch := ch, offset := s.offset + 1 }

/-- `func (l *Lexer) unread()` -/
def unread (src : Bytes) (s : St) : St :=
  { s with offset := s.offset - 1, nextPos := s.pos, pos := ⟨s.pos.line, s.pos.col - 1⟩, ch := byteAt src (s.offset - 2) }

/-- `NewLexer(src)` -/
def init (src : Bytes) : St :=
  next src { offset := 0, ch := 0, pos := ⟨0, 0⟩, nextPos := ⟨1, 1⟩, hadSpace := false, lastTok := T.ILLEGAL }

def isNameStart (c : UInt8) : Bool := c = 95 || (97 ≤ c && c ≤ 122) || (65 ≤ c && c ≤ 90)
def isDigit (c : UInt8) : Bool := 48 ≤ c && c ≤ 57
def isWs (c : UInt8) : Bool := c = 32 || c = 9 || c = 13 || c = 92

/-- `for p(l.ch) { l.next() }` -/
def whileCh (src : Bytes) (p : UInt8 → Bool) : Nat → St → St
  | 0, s => s
  | n + 1, s => if p s.ch then whileCh src p n (next src s) else s

/-- a scanned token; `off` is a ghost value: the byte offset of the character that was current (`offset - 1`) when the reported
position was taken (or, for REGEX, the offset of the opening slash) -/
structure Token where
  pos : Pos
  tok : Nat
  val : Bytes
  off : Nat
deriving DecidableEq, Repr, Inhabited

def msg (s : String) : Bytes := ofString s

/-- error result: ILLEGAL at the lexer's *current* position -/
def illegalHere (s : St) (m : String) : St × Token := (s, ⟨s.pos, T.ILLEGAL, msg m, s.offset - 1⟩)

/-- the whitespace / line-continuation loop at the top of `scan`; `true` = the ILLEGAL return inside the loop -/
def skipWs (src : Bytes) : Nat → St → St × Bool
  | 0, s => (s, false)
  | n + 1, s =>
    if isWs s.ch then
      let s := { s with hadSpace := true }
      if s.ch = 92 then
        let s1 := next src s
        let s2 := if s1.ch = 13 then next src s1 else s1
        if s2.ch ≠ 10 then (s2, true) else skipWs src n (next src s2)
      else skipWs src n (next src s)
    else (s, false)

/-- `if l.ch == '#' { l.next(); for l.ch != '\n' && l.ch != 0 { l.next() } }` -/
def skipComment (src : Bytes) (fuel : Nat) (s : St) : St :=
  if s.ch = 35 then whileCh src (fun c => c ≠ 10 && c ≠ 0) fuel (next src s) else s

def hexDigit (c : UInt8) : Option Nat :=
  if isDigit c then some (c.toNat - 48)
  else if 97 ≤ c && c ≤ 102 then some (c.toNat - 97 + 10)
  else if 65 ≤ c && c ≤ 70 then some (c.toNat - 65 + 10)
  else none

/-- `utf8.ValidRune(rune(r))` for `0 ≤ r < 2^32` held in a 64-bit int (values ≥ 2^31 become negative runes) -/
def validRune (r : Nat) : Bool := r < 0xD800 || (0xE000 ≤ r && r ≤ 0x10FFFF)

/-- `utf8.EncodeRune` for a valid rune -/
def encodeRune (r : Nat) : Bytes :=
  if r < 0x80 then [UInt8.ofNat r]
  else if r < 0x800 then [UInt8.ofNat (0xC0 + r / 64), UInt8.ofNat (0x80 + r % 64)]
  else if r < 0x10000 then [UInt8.ofNat (0xE0 + r / 4096), UInt8.ofNat (0x80 + r / 64 % 64), UInt8.ofNat (0x80 + r % 64)]
  else [UInt8.ofNat (0xF0 + r / 262144), UInt8.ofNat (0x80 + r / 4096 % 64), UInt8.ofNat (0x80 + r / 64 % 64), UInt8.ofNat (0x80 + r % 64)]

/-- up to `k` further hex digits of a `\u` escape -/
def uniDigits (src : Bytes) : Nat → St → Nat → St × Nat
  | 0, s, r => (s, r)
  | k + 1, s, r =>
    match hexDigit s.ch with
    | none => (s, r)
    | some d => uniDigits src k (next src s) (r * 16 + d)

/-- up to `k` further octal digits -/
def octDigits (src : Bytes) : Nat → St → UInt8 → St × UInt8
  | 0, s, c => (s, c)
  | k + 1, s, c =>
    if 48 ≤ s.ch && s.ch ≤ 55 then octDigits src k (next src s) (c * 8 + s.ch - 48) else (s, c)

/-- the one-letter escapes `\n \t \r \a \b \f \v` -/
def escSimple (c : UInt8) : Option UInt8 :=
  if c = 110 then some 10 else if c = 116 then some 9 else if c = 114 then some 13 else if c = 97 then some 7
  else if c = 98 then some 8 else if c = 102 then some 12 else if c = 118 then some 11 else none

/-- `case 'x'` (entered after the `x` was skipped): one or two hex digits -/
def escHex (src : Bytes) (s : St) : St × Except String Bytes :=
  match hexDigit s.ch with
  | none => (s, .error "1 or 2 hex digits expected")
  | some d =>
    let s := next src s
    match hexDigit s.ch with
    | some d2 => (next src s, .ok [UInt8.ofNat d * 16 + UInt8.ofNat d2])
    | none => (s, .ok [UInt8.ofNat d])

/-- `case 'u'` (entered after the `u` was skipped): 1–8 hex digits, encoded as UTF-8 -/
def escUni (src : Bytes) (s : St) : St × Except String Bytes :=
  match hexDigit s.ch with
  | none => (s, .error "1-8 hex digits expected")
  | some d =>
    let r := uniDigits src 7 (next src s) d
    if validRune r.2 then (r.1, .ok (encodeRune r.2)) else (r.1, .error "invalid Unicode character")

/-- the `switch ch()` after a backslash in `parseString` (the backslash is the current character on entry): the state afterwards
and either the bytes the escape stands for or the error message -/
def escape (src : Bytes) (s0 : St) : St × Except String Bytes :=
  let s := next src s0          -- skip over the backslash
  let c := s.ch
  match escSimple c with
  | some b => (next src s, .ok [b])
  | none =>
    if c = 120 then escHex src (next src s)
    else if c = 117 then escUni src (next src s)
    else if 48 ≤ c && c ≤ 55 then
      let r := octDigits src 2 (next src s) (c - 48)
      (r.1, .ok [r.2])
    else
      (next src s, .ok [if c = 0 then 92 else c])

/-- `parseString(quote, ch, next)`; `acc` is the value so far -/
def parseString (src : Bytes) (quote : UInt8) : Nat → St → Bytes → St × Except String Bytes
  | 0, s, acc => (s, .ok acc)
  | n + 1, s, acc =>
    let c := s.ch
    if c = quote || c = 0 then (s, .ok acc)
    else if c = 13 || c = 10 then (s, .error "can't have newline in string")
    else if c ≠ 92 then parseString src quote n (next src s) (acc ++ [c])
    else
      let r := escape src s
      match r.2 with
      | .error m => (r.1, .error m)
      | .ok bs => parseString src quote n r.1 (acc ++ bs)

/-- the mantissa part of the `'0'…'9', '.'` case of `scan` after the first character `c` was consumed: state and `gotDigit` -/
def scanMantissa (src : Bytes) (fuel : Nat) (c : UInt8) (s : St) : St × Bool :=
  let s1 :=
    if c ≠ 46 then
      let s := whileCh src isDigit fuel s
      if s.ch = 46 then next src s else s
    else s
  (whileCh src isDigit fuel s1, c ≠ 46 || isDigit s1.ch)

/-- the exponent part: `1e5`, `1e+5`; a dangling `e` / `e+` is un-read (`1e` is the number 1 followed by the name `e`) -/
def scanExponent (src : Bytes) (fuel : Nat) (s2 : St) : St :=
  if s2.ch = 101 || s2.ch = 69 then
    let s3 := next src s2
    let gotSign := s3.ch = 43 || s3.ch = 45
    let s4 := if gotSign then next src s3 else s3
    let gotDigit := isDigit s4.ch
    let s5 := whileCh src isDigit fuel s4
    if !gotDigit then
      let s6 := if gotSign then unread src s5 else s5
      unread src s6
    else s5
  else s2

/-- the number case; `none` = "expected digits" -/
def scanNumber (src : Bytes) (fuel : Nat) (c : UInt8) (s : St) : Option St :=
  let m := scanMantissa src fuel c s
  if !m.2 then none else some (scanExponent src fuel m.1)

def lookup2 (c : UInt8) : List (Nat × Nat) → Option Nat
  | [] => none
  | (k, t) :: rest => if c.toNat = k then some t else lookup2 c rest

def lookup3 (c : UInt8) : List (Nat × Nat × List (Nat × Nat)) → Option (Nat × List (Nat × Nat))
  | [] => none
  | (k, t, more) :: rest => if c.toNat = k then some (t, more) else lookup3 c rest

def lookupOp (c : UInt8) : List (Nat × Nat × List (Nat × Nat × List (Nat × Nat))) → Option (Nat × List (Nat × Nat × List (Nat × Nat)))
  | [] => none
  | (k, t, more) :: rest => if c.toNat = k then some (t, more) else lookupOp c rest

/-- an operator case of the `switch ch` (generated trie `ops`): returns the state after the optional continuation characters -/
def scanOp (src : Bytes) (s : St) (dflt : Nat) (alts : List (Nat × Nat × List (Nat × Nat))) : St × Nat :=
  match lookup3 s.ch alts with
  | none => (s, dflt)
  | some (t2, alts3) =>
    let s := next src s
    match lookup2 s.ch alts3 with
    | none => (s, t2)
    | some t3 => (next src s, t3)

def keywordToken (name : Bytes) : Nat :=
  match keywords.find? (fun kv => kv.1 = name) with
  | some kv => kv.2
  | none => T.ILLEGAL

def slice (src : Bytes) (a b : Nat) : Bytes := (src.drop a).take (b - a)

/-- names and keywords (`s` = the state after the first character was consumed) -/
def scanName (src : Bytes) (fuel : Nat) (pos : Pos) (off : Nat) (s : St) : St × Token :=
  let start := s.offset - 2
  let s := whileCh src (fun c => isNameStart c || isDigit c) fuel s
  let name := slice src start (s.offset - 1)
  let tok := keywordToken name
  if tok = T.ILLEGAL then (s, ⟨pos, T.NAME, name, off⟩) else (s, ⟨pos, tok, [], off⟩)

/-- `case '0', …, '9', '.'` -/
def scanNum (src : Bytes) (fuel : Nat) (pos : Pos) (off : Nat) (ch : UInt8) (s : St) : St × Token :=
  let start := s.offset - 2
  match scanNumber src fuel ch s with
  | none => illegalHere s "expected digits"   -- only for a lone '.', where no loop moved the lexer
  | some s => (s, ⟨pos, T.NUMBER, slice src start (s.offset - 1), off⟩)

/-- `case '"', '\''` -/
def scanStr (src : Bytes) (fuel : Nat) (pos : Pos) (off : Nat) (ch : UInt8) (s : St) : St × Token :=
  let r := parseString src ch fuel s []
  match r.2 with
  | .error m => illegalHere r.1 m
  | .ok chars =>
    if r.1.ch ≠ ch then illegalHere r.1 "didn't find end quote in string"
    else (next src r.1, ⟨pos, T.STRING, chars, off⟩)

/-- the operator cases (generated trie `ops`), `'&'`, and the `default:` case -/
def scanPunct (src : Bytes) (pos : Pos) (off : Nat) (ch : UInt8) (s : St) : St × Token :=
  if ch = 38 then
    if s.ch = 38 then (next src s, ⟨pos, T.AND, [], off⟩) else illegalHere s "unexpected char after '&'"
  else
    match lookupOp ch ops with
    | some (dflt, alts) =>
      let r := scanOp src s dflt alts
      (r.1, ⟨pos, r.2, [], off⟩)
    | none => (s, ⟨pos, T.ILLEGAL, msg "unexpected char", off⟩)

/-- the part of `scan` after `pos := l.pos; ch := l.ch; l.next()` -/
def scanBody (src : Bytes) (fuel : Nat) (pos : Pos) (off : Nat) (ch : UInt8) (s : St) : St × Token :=
  if isNameStart ch then scanName src fuel pos off s
  else if isDigit ch || ch = 46 then scanNum src fuel pos off ch s
  else if ch = 34 || ch = 39 then scanStr src fuel pos off ch s
  else scanPunct src pos off ch s

/-- `func (l *Lexer) scan()` (without the `lastTok` update, which `scanTok` adds) -/
def scan (src : Bytes) (fuel : Nat) (s : St) : St × Token :=
  let w := skipWs src fuel { s with hadSpace := false }
  if w.2 then illegalHere w.1 "expected \\n after \\ line continuation" else
  let s := skipComment src fuel w.1
  if s.ch = 0 then (s, ⟨s.pos, T.EOF, [], s.offset - 1⟩) else
  scanBody src fuel s.pos (s.offset - 1) s.ch (next src s)

/-- `func (l *Lexer) Scan()` -/
def scanTok (src : Bytes) (fuel : Nat) (s : St) : St × Token :=
  let r := scan src fuel s
  ({ r.1 with lastTok := r.2.tok }, r.2)

/-- the `for l.ch != '/'` loop of `scanRegex`; `none` chars = one of the two ILLEGAL returns (message in the token) -/
def regexLoop (src : Bytes) : Nat → St → Bytes → St × Except String Bytes
  | 0, s, acc => (s, .ok acc)
  | n + 1, s, acc =>
    if s.ch = 47 then (s, .ok acc)
    else
      let c := s.ch
      if c = 0 then (s, .error "didn't find end slash in regex")
      else if c = 13 || c = 10 then (s, .error "can't have newline in regex")
      else if c = 92 then
        let s := next src s
        let acc := if s.ch ≠ 47 then acc ++ [92] else acc
        regexLoop src n (next src s) (acc ++ [s.ch])
      else regexLoop src n (next src s) (acc ++ [c])

/-- `func (l *Lexer) ScanRegex()`; only called when `lastTok` is DIV or DIV_ASSIGN (anything else is a Go panic, modelled as
an ILLEGAL token with the panic text so that a correspondence run would notice) -/
def scanRegex (src : Bytes) (fuel : Nat) (s : St) : St × Token :=
  let back := if s.lastTok = T.DIV then 1 else 2
  let pos : Pos := ⟨s.pos.line, s.pos.col - back⟩
  let off := s.offset - 1 - back
  let acc : Bytes := if s.lastTok = T.DIV then [] else [61]
  if s.lastTok ≠ T.DIV && s.lastTok ≠ T.DIV_ASSIGN then
    ({ s with lastTok := T.ILLEGAL }, ⟨s.pos, T.ILLEGAL, msg "panic: ScanRegex should only be called after DIV or DIV_ASSIGN token", s.offset - 1⟩)
  else
    let r := regexLoop src fuel s acc
    match r.2 with
    | .error m => ({ r.1 with lastTok := T.ILLEGAL }, (illegalHere r.1 m).2)
    | .ok chars => ({ next src r.1 with lastTok := T.REGEX }, ⟨pos, T.REGEX, chars, off⟩)

/-- Drive the lexer the way a client does: `Scan()` until EOF or ILLEGAL; after each DIV / DIV_ASSIGN the next decision bit
says whether the client calls `ScanRegex()` (as the parser does where a primary expression is expected). -/
def lexLoop (src : Bytes) (fuel : Nat) : Nat → St → List Bool → List Token
  | 0, _, _ => []
  | n + 1, s, bits =>
    let (s, t) := scanTok src fuel s
    if t.tok = T.EOF || t.tok = T.ILLEGAL then [t]
    else if t.tok = T.DIV || t.tok = T.DIV_ASSIGN then
      match bits with
      | true :: bits =>
        let (s, r) := scanRegex src fuel s
        if r.tok = T.ILLEGAL then [t, r] else t :: r :: lexLoop src fuel n s bits
      | _ :: bits => t :: lexLoop src fuel n s bits
      | [] => t :: lexLoop src fuel n s []
    else t :: lexLoop src fuel n s bits

def fuelFor (src : Bytes) : Nat := src.length + 2

def lex (src : Bytes) (bits : List Bool) : List Token :=
  lexLoop src (fuelFor src) (fuelFor src) (init src) bits

/-! ### the specification of a position -/

/-- line of byte offset `off`: 1 + the number of newlines before it -/
def lineOf (src : Bytes) (off : Nat) : Nat := 1 + ((src.take off).filter (· = 10)).length

/-- column of byte offset `off`: 1 + the number of bytes since the last newline before it, carriage returns not counted -/
def colOf (src : Bytes) (off : Nat) : Nat :=
  1 + (((src.take off).reverse.takeWhile (· ≠ 10)).filter (· ≠ 13)).length

def trueLineCol (src : Bytes) (off : Nat) : Pos := ⟨lineOf src off, colOf src off⟩

end GoawkModel.C03
