import GoawkModel.C08
/-!
C08 models, part 2: `csvSplitter.scan` as a split function with its state, and the `bufio.Scanner` loop that drives it.

`csvScan cfg st data atEOF` is one call of `(*csvSplitter).scan`: it answers "request more data", "advance over the header
row (no data row available yet)" or "here is a record (advance, fields, $0)", the latter possibly together with the header
names when the header row and the first data row are handled in one call. The code reads whole lines (`readLine` gives up when a line is incomplete
and EOF is not known), so a record is decided exactly when the byte-level parse of `C08.fieldsFuel` ends at a line break —
or at the end of the data when `atEOF`. State = `noBOMCheck` and `rowNum == 0`; it changes only when bytes are consumed.

`run` is Go's `(*bufio.Scanner).Scan` loop (same contract as `GoawkModel.Scanner.scan`, plus the state, plus readers that
return their last chunk together with `io.EOF`), written with fuel so that it evaluates by `decide`.
-/
namespace GoawkModel.C08

structure St where
  noBOM : Bool := false     -- `noBOMCheck`
  row0 : Bool := true       -- `rowNum == 0`
deriving Repr, DecidableEq

inductive Dec where
  | more                                                   -- (0, nil, nil)
  | skip (n : Nat) (names : List Bytes)                    -- (advance, nil, nil) + setFieldNames: header row, no data row yet
  | record (n : Nat) (names : Option (List Bytes)) (fields : List Bytes) (text : Bytes)
                                                           -- (advance, token, nil) + *s.fields = fields (+ setFieldNames)
deriving Repr, DecidableEq

/-- the comment lines and empty lines at the front (the `for` loop around `readLine`) -/
def skipLines (cfg : Cfg) : Nat → Bytes → Bytes
  | 0, r => r
  | n + 1, r =>
    if r = [] then r
    else if cfg.comment ≠ [] ∧ cfg.comment.isPrefixOf r then skipLines cfg n (dropLine r)
    else if r.head? = some 10 then skipLines cfg n r.tail
    else if r.head? = some 13 ∧ r.tail.head? = some 10 then skipLines cfg n r.tail.tail
    else r

/-- one row of data `d` that no longer starts with a BOM and has lost the final `\r` that `readLine` drops before EOF
(`cr` says whether there was one): `none` = "request more data", else (advance, fields, `$0`).
A record that runs into the end of the data (only accepted at EOF) consumes all of it. -/
def rowCore (cfg : Cfg) (d : Bytes) (cr atEOF : Bool) : Option (Nat × List Bytes × Bytes) :=
  let r := skipLines cfg (d.length + 1) d
  if r.isEmpty then none else
  match fieldsFuel cfg.sep (r.length + 1) r with
  | (fs, r', endedEOF, hasCR) =>
    if endedEOF && !atEOF then none else
    let consumed := if endedEOF then r.length else r.length - r'.length
    let advance := (d.length - r.length) + consumed + (if endedEOF && cr then 1 else 0)
    some (advance, fs, recordText (r.take consumed) endedEOF cr hasCR)

def rowAt (cfg : Cfg) (d0 : Bytes) (atEOF : Bool) : Option (Nat × List Bytes × Bytes) :=
  if atEOF then
    if d0.isEmpty then none else rowCore cfg (dropFinalCR d0).1 (dropFinalCR d0).2 true
  else rowCore cfg d0 false false

/-- one row, with the BOM test of the first call (`noBOMCheck` unset) -/
def scanRow (cfg : Cfg) (noBOM : Bool) (data : Bytes) (atEOF : Bool) : Option (Nat × List Bytes × Bytes) :=
  let skipB := if !noBOM && bom.isPrefixOf data then 3 else 0
  match rowAt cfg (data.drop skipB) atEOF with
  | none => none
  | some (a, fs, t) => some (skipB + a, fs, t)

/-- one call of `csvSplitter.scan`. After the header row the code goes on, in the same call, with the first data row of
`origData[advance:]` (so that a nil token is not returned when a data row is already there: at EOF `bufio.Scanner` would stop). -/
def csvScan (cfg : Cfg) (st : St) (data : Bytes) (atEOF : Bool) : Dec :=
  match scanRow cfg st.noBOM data atEOF with
  | none => .more
  | some (adv, fs, text) =>
    if st.row0 && cfg.header then
      match scanRow cfg true (data.drop adv) atEOF with
      | none => .skip adv fs
      | some (n, fs2, t2) => .record (adv + n) (some fs) fs2 t2
    else .record adv none fs text

structure Out where
  names : Option (List Bytes) := none
  recs : List (List Bytes × Bytes) := []
deriving Repr, DecidableEq

/-- one `Read`: the next chunk is appended to the buffer; no chunk left = EOF. `eofWith`: the reader returns its last
chunk together with `io.EOF`. Result: (buffer, remaining chunks, EOF known). -/
def readNext (eofWith : Bool) (buf : Bytes) (chunks : List Bytes) : Bytes × List Bytes × Bool :=
  match chunks with
  | [] => (buf, [], true)
  | [c] => (buf ++ c, [], eofWith)
  | c :: cs => (buf ++ c, cs, false)

/-- `bufio.Scanner.Scan` in a loop: call the split function when the buffer is non-empty or EOF is known; deliver a token
and go on; on a nil token stop if EOF is known, else read more. -/
def run (cfg : Cfg) (eofWith : Bool) : Nat → St → Bytes → List Bytes → Bool → Out → Out
  | 0, _, _, _, _, out => out
  | fuel + 1, st, buf, chunks, eof, out =>
    if !buf.isEmpty || eof then
      match csvScan cfg st buf eof with
      | .record n names fs t =>
        if 0 < n ∧ n ≤ buf.length then
          run cfg eofWith fuel { noBOM := true, row0 := false } (buf.drop n) chunks eof
            { names := if names.isSome then names else out.names, recs := out.recs ++ [(fs, t)] }
        else out
      | .skip n fs =>
        if n ≤ buf.length then
          if eof then { out with names := some fs } else
          let nx := readNext eofWith (buf.drop n) chunks
          run cfg eofWith fuel { noBOM := true, row0 := false } nx.1 nx.2.1 nx.2.2 { out with names := some fs }
        else out
      | .more =>
        if eof then out else
        let nx := readNext eofWith buf chunks
        run cfg eofWith fuel st nx.1 nx.2.1 nx.2.2 out
    else
      let nx := readNext eofWith buf chunks
      run cfg eofWith fuel st nx.1 nx.2.1 nx.2.2 out

def totalLen (chunks : List Bytes) : Nat := (chunks.map List.length).sum

/-- what the program sees for a reader that delivers `chunks` one per `Read` -/
def csvScanAll (cfg : Cfg) (eofWith : Bool) (chunks : List Bytes) : Out :=
  run cfg eofWith (totalLen chunks + chunks.length + 4) {} [] chunks false {}

end GoawkModel.C08
