import GoawkModel.C06
/-!
# C06: a small leftmost-longest matcher for the regex subset the correspondence check drives

This is the *driver's* instance of the abstract matcher parameter `M` of `GoawkModel.C06` (the theorems are stated for every
`M`). It models `(*regexp.Regexp).FindAllStringIndex(line, -1)` after `Longest()` for: literal bytes, `.`, ASCII classes
(possibly negated), `^`, `$`, concatenation, alternation, `*`, `+`, `?`. It is validated against Go's `regexp` by the
correspondence check only.
-/
namespace GoawkModel.C06

inductive Re where
  | empty
  | byte (b : UInt8)
  | any
  | cls (neg : Bool) (ranges : List (UInt8 × UInt8))
  | bol
  | eol
  | cat (a b : Re)
  | alt (a b : Re)
  | star (a : Re)
  | plus (a : Re)
  | opt (a : Re)
  deriving Repr, Inhabited

def Re.size : Re → Nat
  | .cat a b => a.size + b.size + 1
  | .alt a b => a.size + b.size + 1
  | .star a => a.size + 1
  | .plus a => a.size + 1
  | .opt a => a.size + 1
  | _ => 1

def dedup (l : List Nat) : List Nat := l.foldl (fun acc x => if acc.contains x then acc else acc ++ [x]) []

/-- all end positions of matches of `re` starting at `p` -/
def ends (line : Bytes) : Nat → Re → Nat → List Nat
  | 0, _, _ => []
  | _ + 1, .empty, p => [p]
  | _ + 1, .byte b, p => if line[p]? = some b then [p + 1] else []
  | _ + 1, .any, p => if p < line.length then [p + (decodeRune (line.drop p)).2] else []
  | _ + 1, .cls neg rs, p =>
    if p < line.length then
      let (cp, w) := decodeRune (line.drop p)
      let inside := cp < 128 && rs.any (fun (lo, hi) => lo.toNat ≤ cp && cp ≤ hi.toNat)
      if inside != neg then [p + w] else []
    else []
  | _ + 1, .bol, p => if p = 0 then [p] else []
  | _ + 1, .eol, p => if p = line.length then [p] else []
  | f + 1, .cat a b, p => dedup ((ends line f a p).flatMap (fun q => ends line f b q))
  | f + 1, .alt a b, p => dedup (ends line f a p ++ ends line f b p)
  | f + 1, .star a, p => dedup (p :: ((ends line f a p).filter (· > p)).flatMap (fun q => ends line f (.star a) q))
  | f + 1, .plus a, p => dedup ((ends line f a p).flatMap (fun q => ends line f (.star a) q))
  | f + 1, .opt a, p => dedup (p :: ends line f a p)

def maxOf : List Nat → Option Nat
  | [] => none
  | x :: xs => some (xs.foldl max x)

def reFuel (line : Bytes) (re : Re) : Nat := (line.length + 2) * (re.size + 1) + 2

/-- leftmost-longest match starting at or after `pos` -/
def findFrom (line : Bytes) (re : Re) : Nat → Nat → Option (Nat × Nat)
  | 0, _ => none
  | f + 1, pos =>
    if pos > line.length then none
    else match maxOf (ends line (reFuel line re) re pos) with
      | some e => some (pos, e)
      | none =>
        -- Go's matchers step through the input rune by rune from the start position, so a match never begins inside a
        -- multi-byte character (thorough seed 3: `..` against the single character U+2003 must not match its last two bytes)
        findFrom line re f (pos + (if pos < line.length then (decodeRune (line.drop pos)).2 else 1))

/-- the loop of `regexp.(*Regexp).allMatches` -/
def findAllAux (line : Bytes) (re : Re) : Nat → Nat → Option Nat → List (Nat × Nat)
  | 0, _, _ => []
  | f + 1, pos, prevEnd =>
    if pos > line.length then []
    else match findFrom line re (line.length + 2) pos with
      | none => []
      | some (s, e) =>
        if e = pos then
          let w := if pos < line.length then (decodeRune (line.drop pos)).2 else 1
          let rest := findAllAux line re f (pos + w) (some e)
          if some s = prevEnd then rest else (s, e) :: rest
        else (s, e) :: findAllAux line re f e (some e)

def findAll (re : Re) (line : Bytes) : List (Nat × Nat) := findAllAux line re (line.length + 2) 0 none

/-! ### compact prefix syntax used on the line protocol
`e` empty, `bHH` byte, `.` any, `^`, `$`, `[` `0|1` (negated) `N` (one hex digit: number of ranges) then `LLHH` per range,
`&ab` concatenation, `|ab` alternation, `*a`, `+a`, `?a`. -/

def hex2 (a b : Char) : Option UInt8 :=
  match hexVal a, hexVal b with
  | some x, some y => some (UInt8.ofNat (x * 16 + y))
  | _, _ => none

def parseRanges : Nat → List Char → Option (List (UInt8 × UInt8) × List Char)
  | 0, cs => some ([], cs)
  | n + 1, a :: b :: c :: d :: cs =>
    match hex2 a b, hex2 c d, parseRanges n cs with
    | some lo, some hi, some (rs, rest) => some ((lo, hi) :: rs, rest)
    | _, _, _ => none
  | _ + 1, _ => none

def parseRe : Nat → List Char → Option (Re × List Char)
  | 0, _ => none
  | f + 1, c :: cs =>
    if c = 'e' then some (.empty, cs)
    else if c = '.' then some (.any, cs)
    else if c = '^' then some (.bol, cs)
    else if c = '$' then some (.eol, cs)
    else if c = 'b' then
      match cs with
      | a :: b :: rest => (hex2 a b).map (fun x => (.byte x, rest))
      | _ => none
    else if c = '[' then
      match cs with
      | ng :: n :: rest =>
        match hexVal n with
        | some k => (parseRanges k rest).map (fun (rs, rest') => (.cls (ng = '1') rs, rest'))
        | none => none
      | _ => none
    else if c = '&' || c = '|' then
      match parseRe f cs with
      | some (a, rest) =>
        match parseRe f rest with
        | some (b, rest') => some (if c = '&' then .cat a b else .alt a b, rest')
        | none => none
      | none => none
    else if c = '*' || c = '+' || c = '?' then
      match parseRe f cs with
      | some (a, rest) => some (if c = '*' then .star a else if c = '+' then .plus a else .opt a, rest)
      | none => none
    else none
  | _ + 1, [] => none

def parseReWord (w : String) : Option Re :=
  match parseRe (w.length + 1) w.toList with
  | some (r, []) => some r
  | _ => none

end GoawkModel.C06
