import GoawkModel.C09
/-! # C09 — what a *character* is in character mode (`-c` / `Config.Chars`)

An independent statement, written from the Unicode Standard (chapter 3, table 3-7 "Well-Formed UTF-8 Byte Sequences") and not
from `unicode/utf8`: the sequences that are one character. `%c` of a string must print the well-formed sequence the string
starts with, and the single first byte when it starts with none (`Props.C09.chars_chr_is_first_char`). The harness states the
same table in Go (`harness/c09/charmode.go`, `c09WellFormedLen`) and checks the real `sprintf` against it. -/
namespace GoawkModel.C09
open GoawkModel

/-- `lo ≤ b ≤ hi` -/
def inR (lo hi b : UInt8) : Bool := lo ≤ b && b ≤ hi

/-- table 3-7, row by row: the byte sequences that encode exactly one Unicode scalar value (no overlong forms, no surrogates,
nothing above U+10FFFF) -/
def wellFormedSeq : Bytes → Bool
  | [b0] => b0 ≤ 0x7F
  | [b0, b1] => inR 0xC2 0xDF b0 && inR 0x80 0xBF b1
  | [b0, b1, b2] =>
    (b0 == 0xE0 && inR 0xA0 0xBF b1 && inR 0x80 0xBF b2) ||
    ((inR 0xE1 0xEC b0 || inR 0xEE 0xEF b0) && inR 0x80 0xBF b1 && inR 0x80 0xBF b2) ||
    (b0 == 0xED && inR 0x80 0x9F b1 && inR 0x80 0xBF b2)
  | [b0, b1, b2, b3] =>
    (b0 == 0xF0 && inR 0x90 0xBF b1 && inR 0x80 0xBF b2 && inR 0x80 0xBF b3) ||
    (inR 0xF1 0xF3 b0 && inR 0x80 0xBF b1 && inR 0x80 0xBF b2 && inR 0x80 0xBF b3) ||
    (b0 == 0xF4 && inR 0x80 0x8F b1 && inR 0x80 0xBF b2 && inR 0x80 0xBF b3)
  | _ => false

/-- `c` is the first character of the non-empty string `s`: the well-formed sequence `s` starts with, or — when no prefix of `s`
is well formed — its first byte alone -/
def IsFirstChar (s c : Bytes) : Prop :=
  (∃ rest, s = c ++ rest ∧ wellFormedSeq c = true) ∨
  (∃ b rest, s = b :: rest ∧ c = [b] ∧ ∀ p q, s = p ++ q → wellFormedSeq p = false)

/-- the characters of a string in character mode (fuel = length): what `%s` counts for its width and keeps for its precision -/
def charsOfAux : Nat → Bytes → List Bytes
  | 0, _ => []
  | _, [] => []
  | fuel + 1, b => b.take (runeSize b) :: charsOfAux fuel (b.drop (runeSize b))

def charsOf (b : Bytes) : List Bytes := charsOfAux b.length b

/-- `%s` in character mode, stated on characters: at most `prec` characters, padded with spaces to `width` characters -/
def cFmtStrChars (sp : CSpec) (s : Bytes) : Bytes :=
  let cs := match sp.prec with
    | some p => (charsOf s).take p
    | none => charsOf s
  cPadSpaces sp.fl sp.width cs.length cs.flatten

/-- the code point a well-formed sequence encodes (table 3-6: the payload bits, most significant first) -/
def codeOf : Bytes → Nat
  | [b0] => b0.toNat
  | [b0, b1] => (b0.toNat - 0xC0) * 64 + (b1.toNat - 0x80)
  | [b0, b1, b2] => ((b0.toNat - 0xE0) * 64 + (b1.toNat - 0x80)) * 64 + (b2.toNat - 0x80)
  | [b0, b1, b2, b3] => (((b0.toNat - 0xF0) * 64 + (b1.toNat - 0x80)) * 64 + (b2.toNat - 0x80)) * 64 + (b3.toNat - 0x80)
  | _ => 0

/-- Unicode scalar values: the codes that are characters -/
def IsScalar (n : Nat) : Prop := n ≤ 0x10FFFF ∧ ¬ (0xD800 ≤ n ∧ n ≤ 0xDFFF)

end GoawkModel.C09
