/-! Property theorems for C14 (see /verif/DESIGN.md). Only property theorems and non-vacuity examples live here. -/
