import Proofs.C14Fields
import Proofs.C14Machine
import Proofs.C16Locals
/-!
# C14 — a reused Interpreter behaves like a fresh one

Two layers.

**Field level** (`GoawkModel.C14Fields`): every field of the Go `interp` struct is classified, and `resetCore`, `resetVars`,
`ResetRand`, `newInterp`, `setExecuteConfig`, `Execute`, `ExecuteContext` are *the effect lists regenerated from /repo*.
The theorems hold for every semantics `S` of the rest of the interpreter that satisfies `Sem.Ok` (results depend only on
observable fields; immutable fields are not written) and for every history — no bound on its length.

**State machine** (`GoawkModel.C14`): a concrete executable interpreter state with per-class components, run against the
real `interp.Interpreter` by the harness. The same statements, proved without any assumption.
-/
namespace GoawkModel.PropsC14

/-! ## Field level -/
section Fields
open GoawkModel.C14F GoawkModel.Generated.C14Fields

set_option maxRecDepth 100000 in
/-- Every field of `type interp struct` has a class; the table has no stale entries; and per class the regenerated
reset functions do what the class demands (perRun: restored to the `newInterp` value by `resetCore`; fromConfig:
definitely assigned by `setExecuteConfig`; vars / rand: restored by `resetVars` / `ResetRand` and untouched by the entry
code; immutable: untouched by all of them; ctx: assigned by both entry points). (G14-1 — `csvFields` not cleared by
resetCore after the F13 repair — made this fail; repaired in d5c3fe1.) -/
theorem classified :
    interpFields.all (fun f => (classOf f).isSome) = true ∧
    classTable.all (fun e => interpFields.contains e.1) = true ∧
    (classTable.map (·.1)).length = interpFields.length ∧
    classTable.all classFact = true :=
  ⟨all_classified, table_current.1, table_current.2, by decide⟩

/-- no field fails its obligation on the current source, so the theorems below leave nothing out of what a run may read -/
theorem leaks_empty : leaks = [] := by
  have h := classified.2.2.2
  unfold leaks
  rw [List.map_eq_nil_iff, List.filter_eq_nil_iff]
  intro e he
  simp [List.all_eq_true.mp h e he]

/-- the shape of the Go functions the model relies on: no conditional resets, no helper calls inside the resets,
`setExecuteConfig` writes config-class fields only, reads nothing stale, and calls only the three known helpers;
the entry points are resetCore → setExecuteConfig → executeAll -/
theorem gen_matches :
    ((newInterpEffects ++ resetCoreEffects ++ resetVarsEffects ++ resetRandEffects ++ executeEffects ++
        executeContextEffects).all (fun e => e.2.2.2) = true ∧
      resetCoreCalls = [] ∧ resetVarsCalls = [] ∧ resetRandCalls = [] ∧ newInterpCalls = []) ∧
    (setExecuteConfigEffects.all (fun e => decide (classOf e.1 = some .fromConfig)) = true ∧
      setExecuteConfigCalls.all (fun m => ["setArrayValue", "setVarByName", "initNativeFuncs"].contains m) = true ∧
      setExecuteConfigReadsBeforeWrite.all (fun f => decide (classOf f = some .immutable)) = true) ∧
    (executeCalls = ["resetCore", "setExecuteConfig", "executeAll"] ∧
      executeContextCalls = ["resetCore", "setExecuteConfig", "executeAll"] ∧
      execProgramCalls = ["newInterp", "setExecuteConfig", "executeAll"] ∧
      newCalls = ["newInterp"] ∧ resetVarsPublicCalls = ["resetVars"] ∧
      execProgramEffects = [] ∧ newEffects = []) :=
  ⟨resets_unconditional, config_writes_config_only, entry_sequences⟩

variable {Cfg Result : Type}

/-- every state reachable from `New` by any history keeps its immutable fields -/
theorem reachable_closed (S : Sem Cfg Result) (ok : S.Ok []) (h : List (Step Cfg)) :
    Inv (runHistory S h freshState) :=
  inv_history S (leaks_empty ▸ ok) h freshState inv_fresh

/-- **Reuse = fresh.** After any history, ResetVars + ResetRand, then Execute (or ExecuteContext) gives the result of the
same call on a newly created interpreter. -/
theorem reuse_eq_fresh_fields (S : Sem Cfg Result) (ok : S.Ok []) (h : List (Step Cfg)) (e : Entry) (cfg : Cfg) :
    (exec S e cfg (applyEffects resetRandEffects (applyEffects resetVarsEffects (runHistory S h freshState)))).2 =
      (exec S e cfg freshState).2 := by
  apply ok.run_obs
  rw [← leaks_empty]
  have hv := reset_vars_rand (runHistory S h freshState)
  exact preRun_obsEq S e cfg _ _ hv.1 hv.2 (reset_immutable _ (reachable_closed S ok h))

/-- … and of `interp.ExecProgram` -/
theorem reuse_eq_execProgram_fields (S : Sem Cfg Result) (ok : S.Ok []) (h : List (Step Cfg)) (cfg : Cfg) :
    (exec S .plain cfg (applyEffects resetRandEffects (applyEffects resetVarsEffects (runHistory S h freshState)))).2 =
      (execProgram S cfg).2 := by
  rw [execProgram_eq_new_execute S (leaks_empty ▸ ok) cfg]
  exact reuse_eq_fresh_fields S ok h .plain cfg

/-- **Without the resets only variables and the generator carry over**: the result is that of a fresh interpreter into
which just the variable-class and generator-class fields were copied. -/
theorem without_reset_fields (S : Sem Cfg Result) (ok : S.Ok []) (h : List (Step Cfg)) (e : Entry) (cfg : Cfg) :
    (exec S e cfg (runHistory S h freshState)).2 = (exec S e cfg (carryOnly (runHistory S h freshState))).2 := by
  apply ok.run_obs
  rw [← leaks_empty]
  apply preRun_obsEq
  · intro f hc _; simp [carryOnly, hc]
  · intro f hc _; simp [carryOnly, hc]
  · intro f hc hx
    have := reachable_closed S ok h f hc hx
    simp [carryOnly, hc, this]

/-- Non-vacuity: a semantics whose result is the whole observable state (so any leak would show), and which dirties
every field it may, satisfies the assumptions. -/
def probeSem : Sem Unit (List Tok) where
  cfgVal := fun _ f => ("cfg", f)
  cfgVars := fun _ _ t => t
  run := fun _ s =>
    (fun f => if classOf f = some .immutable then s f else ("dirty", f),
     (classTable.filter (fun e => observable e.2.1 && e.2.1 != .ctx)).map (fun e => s e.1))

example : ∃ s₁ s₂ : FState, (probeSem.run () s₁).2 ≠ (probeSem.run () s₂).2 :=
  ⟨fun _ => ("a", ""), fun _ => ("b", ""), by decide⟩

set_option maxRecDepth 100000 in
theorem table_functional : classTable.all (fun e => decide (classOf e.1 = some e.2.1)) = true := by decide

/-- the assumptions of the field-level theorems are satisfiable by this leak-revealing semantics -/
theorem probeSem_ok : probeSem.Ok [] where
  run_obs := by
    intro _ s₁ s₂ h
    show List.map _ _ = List.map _ _
    apply List.map_congr_left
    intro e he
    have hmem := (List.mem_filter.mp he).1
    have hobs := (List.mem_filter.mp he).2
    have hc : classOf e.1 = some e.2.1 := by
      simpa using List.all_eq_true.mp table_functional e hmem
    simp at hobs
    apply h e.1 e.2.1 hc (by simp)
    left
    exact hobs.1
  run_immutable := by
    intro _ s f hc
    simp [probeSem, hc]

end Fields

/-! ## State machine -/
section Machine
open GoawkModel.C14

/-- **Reuse = fresh**, for every history of Execute / ExecuteContext / ResetVars / ResetRand calls (runs ending
normally, by exit, by a run-time error, by cancellation, or rejected by setExecuteConfig) and every probe configuration. -/
theorem reuse_eq_fresh (h : List Call) (cfg : Cfg) :
    (execute cfg (resetRand (resetVars (runHistory h fresh)))).2 = execFresh cfg := by
  have hk := runHistory_cacheOk h fresh fresh_cacheOk
  have h1 := (execute_rel cfg (resetRand (resetVars (runHistory h fresh))) _ ⟨rfl, hk⟩).2
  have h2 := (execute_rel cfg fresh _ ⟨rfl, fresh_cacheOk⟩).2
  rw [execFresh, h1, h2]
  exact executeC_reads cfg _ _ rfl rfl

/-- **Without the resets only variables, arrays and the generator carry over.** -/
theorem without_reset (h : List Call) (cfg : Cfg) :
    (execute cfg (runHistory h fresh)).2 = (execute cfg (carryOnly (runHistory h fresh))).2 := by
  have hk := runHistory_cacheOk h fresh fresh_cacheOk
  have h1 := (execute_rel cfg (runHistory h fresh) _ ⟨rfl, hk⟩).2
  have h2 := (execute_rel cfg (carryOnly (runHistory h fresh)) _ ⟨rfl, fresh_cacheOk⟩).2
  rw [h1, h2]
  exact executeC_reads cfg _ _ rfl rfl

/-- the stream table (the `"-"` scanner, whether Stdin was drained) and the range-pattern flag are per-run components:
`resetCore` clears them whatever the previous run left — so `reuse_eq_fresh` and `without_reset` cover a run that ended
with a partly read stream or in the middle of a range -/
theorem reset_clears_streams_and_range (s : State) :
    (resetCore s).core.perRun.dash = none ∧ (resetCore s).core.perRun.rawTaken = false ∧
    (resetCore s).core.perRun.inRange = false ∧ (resetCore s).core.perRun.scannerOpen = false ∧
    (resetCore s).core.perRun.rest = [] := ⟨rfl, rfl, rfl, rfl, rfl⟩

/-- the regex cache of every reachable state is sound, so a hit returns what a miss would compute -/
theorem cache_sound (h : List Call) : CacheOk (runHistory h fresh).cache :=
  runHistory_cacheOk h fresh fresh_cacheOk

/-- Non-vacuity: a history that sets a variable, seeds the generator, assigns NR, exits with status 3 and then aborts
in END really changes the state; without the resets the variable and the seed are still there for the next run while NR
and the exit status are not; with the resets nothing is. -/
def dirtyCfg : Cfg :=
  ⟨false, false, ["a"], false, none, false, false, [.setG 0 "v", .srand 3, .setNR 9, .exit 3], [], [.err]⟩
def dirtyHistory : List Call := [.exec dirtyCfg]
def probeCfg : Cfg := ⟨false, false, [], false, none, false, false, [.probe], [], []⟩

example : (execute dirtyCfg fresh).2.err = .divzero ∧
    (runHistory dirtyHistory fresh).core.perRun.nr = 9 ∧
    (runHistory dirtyHistory fresh).core.perRun.exitStatus = 3 ∧
    (runHistory dirtyHistory fresh).core.vars.g = ["v", "", ""] ∧
    (runHistory dirtyHistory fresh).core.rand.seed = 3 := by decide

example : (execute probeCfg (runHistory dirtyHistory fresh)).2.status = 0 ∧
    (execute probeCfg (runHistory dirtyHistory fresh)).1.core.perRun.nr = 0 ∧
    (execute probeCfg (runHistory dirtyHistory fresh)).1.core.vars.g = ["v", "", ""] ∧
    (execute probeCfg (resetRand (resetVars (runHistory dirtyHistory fresh)))).1.core.vars.g = ["", "", ""] := by decide

/-- Non-vacuity for the stream table and the range flag: a run that reads one of three records through `"-"` and whose
input ends inside the range leaves both behind. -/
def streamCfg : Cfg := ⟨false, false, ["s", "x", "y"], false, none, false, false, [.getDash], [], []⟩
def rangeCfg : Cfg := ⟨false, false, ["x", "s", "y"], false, none, false, false, [], [], []⟩

example : (execute streamCfg fresh).1.core.perRun.dash = some ["x", "y"] ∧
    (execute streamCfg fresh).1.core.perRun.rawTaken = true := by decide

example : (execute rangeCfg fresh).1.core.perRun.inRange = true := by decide

end Machine

/-! ## Call machinery: why `arrays` is a `vars` field although calls push their local arrays onto it

`GoawkModel.C16.Locals` models `CallUser`'s array-table discipline (append new empty maps, run the body, truncate on EVERY path before
the way of ending is looked at); the harness of C16 compares it with the real interpreter. -/
section Locals
open GoawkModel.C16.Locals

/-- Whatever the pieces of an earlier run did and however each of them ended — normally, by `exit`, `next`, `nextfile`, a run-time
error or call-depth overflow inside any nesting of calls — the table the run leaves behind holds exactly the global arrays (nothing of
an aborted activation stays reachable, and `resetVars`, which empties the maps of the table, reaches every map a later run can see),
and every function entry of a later run on the same table starts with empty local arrays. Unbounded in functions, pieces and fuel. -/
theorem locals_fresh_across_runs (fns : List Fn) (fuel : Nat) (run₁ run₂ : List (List Stmt)) (globals : Table) :
    (phases fns fuel globals.length run₁ ⟨globals, []⟩).1.tab = globals ∧
      AllFresh (phases fns fuel globals.length run₂ ⟨(phases fns fuel globals.length run₁ ⟨globals, []⟩).1.tab, []⟩).1.entries := by
  have h₁ := phases_spec fns fuel run₁ ⟨globals, []⟩ (fun e he => by cases he)
  refine ⟨h₁.1, ?_⟩
  rw [h₁.1]
  exact (phases_spec fns fuel run₂ ⟨globals, []⟩ (fun e he => by cases he)).2

/-- non-vacuity: run 1 dies by a run-time error two calls deep with both activations' arrays filled; run 2 calls the same functions -/
example :
    (phases [⟨1, [.fill 0 1, .call 1]⟩, ⟨2, [.fill 0 2, .fill 1 3, .leave .err]⟩] 40 0 [[.call 0]] ⟨[], []⟩) =
      (⟨[], [[0], [0, 0]]⟩, [.err]) := rfl

end Locals

end GoawkModel.PropsC14
