import Proofs.C07Pins
import Proofs.ScannerChunk
import Proofs.C07Splitters
import Proofs.C07Regex
import Proofs.C07Blank
import Proofs.C07Lit
import Proofs.C07Lines
import Proofs.C07Para
/-!
# C07 — record reading is lossless and independent of how input bytes arrive

Property theorems over the scanner model (`GoawkModel.Scanner.scan` = the `bufio.Scanner` contract) and the models
of GoAWK's split functions (`GoawkModel.C07`). No bound on input size, chunk count or chunk sizes.
-/
namespace GoawkModel.C07.Props
open GoawkModel GoawkModel.Scanner GoawkModel.C07

/-- Generic: for every split function whose token decisions are stable and whose skips are invisible, the records,
RT values (and hence NR/FNR) do not depend on the chunking. -/
theorem chunk_independent (f : SplitFn) (hf : WellFormed f) (chunks : List Bytes) :
    scan f [] chunks false = scan f [] [chunks.flatten] false :=
  Scanner.chunk_independent f hf chunks

/-- RS = "\n" (`bufio.ScanLines`) -/
theorem newline_chunk_independent (chunks : List Bytes) :
    scan splitNewline [] chunks false = scan splitNewline [] [chunks.flatten] false :=
  Scanner.chunk_independent _ wf_newline chunks

/-- RS = any single byte, UTF-8 or not -/
theorem byte_chunk_independent (c : UInt8) (chunks : List Bytes) :
    scan (splitByte c) [] chunks false = scan (splitByte c) [] [chunks.flatten] false :=
  Scanner.chunk_independent _ (wf_byte c) chunks

/-- regex RS, for every matcher whose matches, once they end strictly inside the data, are not changed by more data.
(The hypothesis is false for e.g. `abcd|b`: known finding F10, where the real code is chunk-dependent.) -/
theorem regex_chunk_independent (m : Bytes → Option (Nat × Nat)) (hr : InRange m) (hs : MatchStable m)
    (chunks : List Bytes) :
    scan (splitRegex m) [] chunks false = scan (splitRegex m) [] [chunks.flatten] false :=
  Scanner.chunk_independent _ (wf_regex m hr hs) chunks

/-- RS = "" (paragraph mode, `blankLineSplitter` as repaired): records and RT do not depend on the chunking -/
theorem blank_chunk_independent (chunks : List Bytes) :
    scan splitBlank [] chunks false = scan splitBlank [] [chunks.flatten] false :=
  Scanner.chunk_independent _ wf_blank chunks

/-- RS = "" on input without carriage returns, every chunking: the records are the blank-line-separated paragraphs. Every
record is a paragraph (`IsParagraph`: non-empty, neither begins nor ends with LF, contains no empty line `hasNN`), every
RT is a run of LFs, at least two of them unless the record is the last one (`sepOK`), and the input's leading LFs followed
by every record and its RT reproduce the input. (A text has exactly one decomposition `LF* (paragraph LF{2,})* [paragraph LF*]`
of this kind — `blank_spec_unique` below. Input with CRs — `\r\n` blank
lines, one trailing CR dropped per record — is covered by `blank_chunk_independent` and the correspondence check only.) -/
theorem blank_spec (chunks : List Bytes) (hcr : (13 : UInt8) ∉ chunks.flatten) :
    (∀ p ∈ scan splitBlank [] chunks false, IsParagraph p.1 ∧ ∀ b ∈ p.2, b = 10) ∧
    sepOK (scan splitBlank [] chunks false) = true ∧
    chunks.flatten.takeWhile isNL ++ ((scan splitBlank [] chunks false).map fun p => p.1 ++ p.2).flatten =
      chunks.flatten := by
  rw [scan_eq_final _ wf_blank]
  simpa using blank_para_final chunks.flatten hcr

/-- … and that decomposition is the only one: whenever a CR-free input is some run of LFs followed by paragraphs, each with a
run of LFs after it that is at least two long unless the paragraph is the last (`GoodDecomp`), those paragraphs and runs are
exactly the records and RTs the program sees, whatever the chunking. With `blank_spec` (existence) this is the full
statement "with RS="" the records are the blank-line-separated paragraphs" for CR-free input. -/
theorem blank_spec_unique (chunks : List Bytes) (hcr : (13 : UInt8) ∉ chunks.flatten) (lead : Bytes)
    (recs : List (Bytes × Bytes)) (hlead : ∀ b ∈ lead, b = 10) (hgood : GoodDecomp recs)
    (hcat : lead ++ catRecs recs = chunks.flatten) :
    scan splitBlank [] chunks false = recs := by
  obtain ⟨h1, h2, h3⟩ := blank_spec chunks hcr
  have := para_decomp_unique _ recs _ lead (takeWhile_isNL_all_LF hcr) hlead ⟨h1, h2⟩ hgood
    (by rw [hcat]; exact h3)
  exact this.2

/-- RS = one multi-byte character or any other literal of two or more bytes (GoAWK routes these through the regex
splitter with a quoted literal): unconditional chunk independence and losslessness. -/
theorem literal_chunk_independent (lit : Bytes) (chunks : List Bytes) :
    scan (splitRegex fun d => findLit lit d 0) [] chunks false =
    scan (splitRegex fun d => findLit lit d 0) [] [chunks.flatten] false :=
  Scanner.chunk_independent _ (wf_regex _ (lit_inRange lit) (lit_matchStable lit)) chunks

/-- regex RS is lossless for every chunking (records followed by their RT reproduce the input), given only that the
matcher reports in-range positions and — for the chunked run to equal the one-piece run — stability. -/
theorem regex_lossless (m : Bytes → Option (Nat × Nat)) (hr : InRange m) (hs : MatchStable m) (chunks : List Bytes) :
    ((scan (splitRegex m) [] chunks false).map fun p => p.1 ++ p.2).flatten = chunks.flatten := by
  rw [scan_eq_final _ (wf_regex m hr hs)]
  simpa using regex_lossless_final m hr chunks.flatten

/-- regex RS read in one piece is lossless for *every* in-range matcher (no stability needed) -/
theorem regex_lossless_oneshot (m : Bytes → Option (Nat × Nat)) (hr : InRange m) (x : Bytes) :
    ((final (splitRegex m) x).map fun p => p.1 ++ p.2).flatten = x :=
  regex_lossless_final m hr x

/-- single-byte RS: the records each followed by RS reproduce the input up to one optional final RS, for every chunking -/
theorem byte_lossless (c : UInt8) (chunks : List Bytes) :
    ((scan (splitByte c) [] chunks false).map fun p => p.1 ++ [c]).flatten =
      if chunks.flatten.getLast? = some c ∨ chunks.flatten = [] then chunks.flatten else chunks.flatten ++ [c] := by
  rw [scan_eq_final _ (wf_byte c)]
  simpa using byte_lossless_final c chunks.flatten

/-- single-byte RS, every chunking: no record contains the separator. Together with `byte_lossless` this says the records
are exactly the maximal separator-free segments of the input, in order. -/
theorem byte_records_are_segments (c : UInt8) (chunks : List Bytes) :
    ∀ p ∈ scan (splitByte c) [] chunks false, c ∉ p.1 := by
  rw [scan_eq_final _ (wf_byte c)]
  simpa using byte_records_no_sep c chunks.flatten

/-- RS="\n", every chunking: the records are the lines — the LF-free segments of the input in order (`byte_lossless`,
`byte_records_are_segments` for LF) — each with one trailing CR dropped. -/
theorem newline_spec (chunks : List Bytes) :
    scan splitNewline [] chunks false =
      (scan (splitByte 10) [] chunks false).map fun p => (dropCR p.1, p.2) := by
  rw [scan_eq_final _ wf_newline, scan_eq_final _ (wf_byte 10)]
  simpa using newline_is_byte_dropCR chunks.flatten

/-- F10, stated on the model: the matcher of `abcd|b` restricted to the witness is not stable, and the scanner model is
then chunk-dependent exactly as the real code is ("xabc"+"dy" vs "xabcdy"). -/
def f10Matcher : Bytes → Option (Nat × Nat) := fun d =>
  match findLit [97, 98, 99, 100] d 0, findLit [98] d 0 with      -- leftmost of `abcd` and `b`, longest on a tie
  | some (a, b), some (a', b') => if a ≤ a' then some (a, b) else some (a', b')
  | some p, none => some p
  | none, some p => some p
  | none, none => none

theorem regex_chunk_dependent_F10 :
    scan (splitRegex f10Matcher) [] [[120, 97, 98, 99], [100, 121]] false ≠
    scan (splitRegex f10Matcher) [] [[120, 97, 98, 99, 100, 121]] false := by
  simp [scan, splitRegex, f10Matcher, findLit, List.isPrefixOf]

theorem literal_lossless (lit : Bytes) (chunks : List Bytes) :
    ((scan (splitRegex fun d => findLit lit d 0) [] chunks false).map fun p => p.1 ++ p.2).flatten = chunks.flatten :=
  regex_lossless _ (lit_inRange lit) (lit_matchStable lit) chunks

-- non-vacuity: a concrete chunking with separators inside and across chunks
example : scan splitNewline [] [[97, 13], [10, 98], [10]] false = [([97], [10]), ([98], [10])] := by
  simp [scan, splitNewline, indexByte, dropCR]
example : scan splitBlank [] [[97, 10], [10, 10, 98]] false = [([97], [10, 10, 10]), ([98], [])] := by
  simp [scan, splitBlank, blankBody, findBlank, shift, isNL, dropCR, dropLF]
-- `blank_spec` on "\n\na\nb\n\n\nc\n" delivered in three chunks: two paragraphs, the first with an inner line break
example : scan splitBlank [] [[10, 10, 97, 10], [98, 10, 10], [10, 99, 10]] false =
    [([97, 10, 98], [10, 10, 10]), ([99], [10])] ∧ (13 : UInt8) ∉ [[10, 10, 97, 10], [98, 10, 10], [10, 99, 10]].flatten := by
  simp [scan, splitBlank, blankBody, findBlank, shift, isNL, dropCR, dropLF]
example : GoodDecomp [([97, 10, 98], [10, 10, 10]), ([99], [10])] ∧
    [10, 10] ++ catRecs [([97, 10, 98], [10, 10, 10]), ([99], [10])] = [[10, 10, 97, 10], [98, 10, 10], [10, 99, 10]].flatten := by
  simp [GoodDecomp, IsParagraph, hasNN, sepOK, catRecs]
example : IsParagraph [97, 10, 98] ∧ ¬ IsParagraph [97, 10, 10, 98] ∧ ¬ IsParagraph [97, 10] ∧
    sepOK [([97], [10, 10]), ([98], [10])] = true ∧ sepOK [([97], [10]), ([98], [10])] = false := by
  simp [IsParagraph, hasNN, sepOK]
example : scan (splitByte 59) [] [[97, 59], [59, 98]] false = [([97], [59]), ([], [59]), ([98], [59])] := by
  simp [scan, splitByte, indexByte]

end GoawkModel.C07.Props

/-! ## Pinned source text (regenerated tie; extract/pins.go, tools/repin.py)
An edit of one of these functions in /repo breaks the matching obligation: the model below was written from the text
in `Proofs.C07Pins` and has to be compared with the new text before it is re-pinned. -/
namespace GoawkModel.Pins.C07
theorem pin_dropCR : Generated.C07Pins.dropCR = Expected.dropCR := rfl
theorem pin_dropLF : Generated.C07Pins.dropLF = Expected.dropLF := rfl
theorem pin_blankLineSplitter_scan : Generated.C07Pins.blankLineSplitter_scan = Expected.blankLineSplitter_scan := rfl
theorem pin_byteSplitter_scan : Generated.C07Pins.byteSplitter_scan = Expected.byteSplitter_scan := rfl
theorem pin_regexSplitter_scan : Generated.C07Pins.regexSplitter_scan = Expected.regexSplitter_scan := rfl
theorem pin_newScanner : Generated.C07Pins.newScanner = Expected.newScanner := rfl
theorem pin_list : Generated.C07Pins.pinned = Expected.pinned := rfl
end GoawkModel.Pins.C07
-- end of pinned source text
