import Proofs.C20Show
import Proofs.C20Quote
import Proofs.C04Gen
import Proofs.C20Stmt
import Proofs.C20Num
import Proofs.C20Simple
/-! Property theorems for C20 (see /verif/DESIGN.md). Only property theorems and non-vacuity examples live here.

Expressions (token level; every tree of the parser's range that C04's theorems cover: everything but the getline forms): `showE` mirrors the `String()` methods of internal/ast/ast.go with
`parenthesize`; `addShow e` is the tree the printed text denotes. String and regex literals (byte level): `quote` /
`lexString`, `formatRegex` / `lexRegex` mirror `quoteString`, the lexer's `parseString`, `formatRegex`, `scanRegex`. -/
namespace GoawkModel.C20
open GoawkModel.C04

/-- The printed form of an expression of the parser's range is accepted by the parser and parses to the same tree
    apart from grouping nodes (`ParserRange` = `canon pc 1`, the trees `parseExpr` produces: C04 `parse_canonical`). -/
theorem show_reparses (e : Expr) (pc : Bool) (rest : List Tok) (hr : canon pc 1 e = true)
    (hf : Follow pc rest) :
    ∃ e', parseExpr pc (showE e ++ rest) = .ok (e', rest) ∧ strip e' = strip e := by
  refine ⟨addShow e, ?_, strip_addShow e⟩
  rw [showE_eq_render e pc 1 hr]
  exact parseExpr_canon pc (addShow e) rest (canon_addShow e pc 1 hr) (by unfold Follow at hf; omega)

/-- Printing the re-parsed tree yields the same text again. -/
theorem show_idempotent (e : Expr) (pc : Bool) (rest : List Tok) (hr : canon pc 1 e = true)
    (hf : Follow pc rest) :
    ∀ e' rest', parseExpr pc (showE e ++ rest) = .ok (e', rest') → showE e' = showE e := by
  intro e' rest' h
  have hs := showE_eq_render e pc 1 hr
  rw [hs, parseExpr_canon pc (addShow e) rest (canon_addShow e pc 1 hr) (by unfold Follow at hf; omega)] at h
  cases h
  rw [showE_eq_render (addShow e) pc 1 (canon_addShow e pc 1 hr), addShow_idem e pc 1 hr]
  exact hs.symm

/-- The printed tokens are the tree's own tokens plus parentheses exactly where `parenthesize` puts them. -/
theorem show_is_render (e : Expr) (pc : Bool) (hr : canon pc 1 e = true) :
    showE e = render (addShow e) :=
  showE_eq_render e pc 1 hr

/-- A printed string literal is read back by the lexer as the same bytes: for every byte string, every `IsPrint`
    predicate on non-ASCII runes, every continuation of the source. -/
theorem quote_roundtrip (printable : Nat → Bool) (s rest : Bytes) :
    C20Quote.lexString ((C20Quote.quote printable s).tail ++ rest) = some (s, rest) :=
  C20Quote.quote_roundtrip printable s rest

/-- A printed regex literal is read back as the same regex, for every regex value the lexer can produce. -/
theorem regex_roundtrip (r rest : Bytes) (h : C20Quote.RegexOk r) :
    C20Quote.lexRegex ((C20Quote.formatRegex r).tail ++ rest) = some (r, rest) :=
  C20Quote.regex_roundtrip r rest h

/-- `RegexOk` is exactly the range of the lexer's regex reader (so `regex_roundtrip` covers every parsed program). -/
theorem regex_range (r : Bytes) : C20Quote.RegexOk r ↔ ∃ src rest, C20Quote.lexRegex src = some (r, rest) :=
  C20Quote.regexOk_iff_lexable r

/-! ### statements: the control-flow skeleton (GoawkModel.C20Stmt) -/

/-- The printed form of a statement of the control-flow skeleton (simple | if/else | while | do | for | for-in | block;
    conditions and simple statements are opaque tokens, covered by `show_reparses` for expressions) is read back by the
    statement parser model as exactly the same tree, whatever follows the line (except a dangling `else`). -/
theorem show_reparses_stmt (s : C20Stmt.S) (rest : List C20Stmt.STok) (hs : C20Stmt.isStmt s = true)
    (hrest : C20Stmt.hd (C20Stmt.skipNl rest) ≠ .kElse) :
    C20Stmt.parseStmt (C20Stmt.showS s ++ .nl :: rest) = some (s, C20Stmt.dropSeps rest, true) :=
  C20Stmt.parseStmt_show s rest hs hrest

/-- … hence printing the re-parsed statement gives the same tokens. -/
theorem show_idempotent_stmt (s : C20Stmt.S) (rest : List C20Stmt.STok) (hs : C20Stmt.isStmt s = true)
    (hrest : C20Stmt.hd (C20Stmt.skipNl rest) ≠ .kElse) :
    ∀ s' r p, C20Stmt.parseStmt (C20Stmt.showS s ++ .nl :: rest) = some (s', r, p) → C20Stmt.showS s' = C20Stmt.showS s := by
  intro s' r p h
  rw [show_reparses_stmt s rest hs hrest] at h
  cases h; rfl

/-! ### simple statements as real syntax (GoawkModel.C20Simple) -/

/-- `hasRedirectOp` is sound for what it is used for: a print argument of the parser's range on which it answers
    `false` prints to an expression that the print-context parser (`printExpr`: no `>`, no `| getline`) reads back. -/
theorem hasRedirectOp_sound (e : Expr) (hc : canon false 1 e = true) (hr : C20Simple.hasRedirectOp e = false) :
    canon true 1 (addShow e) = true :=
  C20Simple.canon_true_addShow e hc hr

/-- The printed form of a simple statement — `print`/`printf` with any argument list (parenthesised by the printer exactly
    when `hasRedirectOp` says so) and `>`, `>>`, `|` redirection, `delete a`, `delete a[i]`, `exit [e]`, `return [e]`,
    `next`, `nextfile`, `break`, `continue`, an expression statement — is read back by the statement parser entry
    `parseSimple` (on top of the C04 expression parser) as the same statement modulo grouping, whatever separator follows. -/
theorem show_reparses_simple (s : C20Simple.Simple) (R : List C20Simple.PTok) (hok : C20Simple.okSimple s)
    (hR : C20Simple.stmtEnd (C20Simple.hdP R) = true) :
    ∃ s', C20Simple.parseSimple (C20Simple.showSimple s ++ R) = .ok (s', R) ∧
      C20Simple.stripSimple s' = C20Simple.stripSimple s :=
  C20Simple.simple_reparses s R hok hR

/-- What is not proved (decided by the implementation-side oracle only): the composition into whole programs over ONE
    token stream — the control-flow skeleton (`show_reparses_stmt`, opaque leaves) instantiated with the real simple
    statements (`show_reparses_simple`) and conditions (`show_reparses`), the items (BEGIN, END, pattern-action with
    range patterns, functions with parameters), multi-dimensional `delete a[i,j]`, calls, regex literals, and the
    byte level (no two adjacent printed tokens fuse; indentation). Stated over an abstract program printer/parser pair
    because the model has no item level yet. -/
def show_reparses_program (Program Text : Type) (print : Program → Text) (parse : Text → Option Program)
    (norm : Program → Program) : Prop :=
  ∀ p, (∃ src, parse src = some p) → ∃ p', parse (print p) = some p' ∧ norm p' = norm p ∧ print p' = print p

/-! ### number literals (NumExpr.String as repaired by G20-1) -/

/-- Printing a number literal is a fixed point of parse-and-print, for every formatter/reader satisfying `Laws`
    (validated on strconv by the harness): `show (parse (show v)) = show v`. -/
theorem num_show_fixed_point {V T : Type} (F : C20Num.NumFmt V T) (L : F.Laws) (v : V) :
    F.show (F.parse (F.show v)) = F.show v :=
  C20Num.show_fixed_point F L v

/-- The value read back agrees with the original to six significant digits. -/
theorem num_show_six_digits {V T : Type} (F : C20Num.NumFmt V T) (L : F.Laws) (v : V) (h : F.isInf v = false) :
    F.fmtG (F.parse (F.show v)) = F.fmtG v :=
  C20Num.show_value_six_digits F L v h

/-- The repair is needed: the pre-G20-1 printer (`%.6g` whenever the value is not an integer) is not a fixed point for a
    formatter satisfying the same laws. -/
theorem num_old_show_fails :
    ∃ (F : C20Num.NumFmt Nat String), F.Laws ∧ ∃ v, C20Num.oldShow F (F.parse (C20Num.oldShow F v)) ≠ C20Num.oldShow F v :=
  C20Num.oldShow_not_fixed_point

/-- Regenerated tie: ast.go's prec constants, every `precedence()` method, `parenthesize`'s test and `IsLValue` are the
    ones the printer model `goPrec` / `parenT` is written from. -/
theorem gen_matches :
    Generated.C04Levels.precConsts.length = 17 ∧
    Generated.C04Levels.precedenceOf.all (fun (t, c) => match sampleOf t with | some e => goPrec e == precIdx c | none => precIdx c == 15 || t == "NamedFieldExpr") = true ∧
    (Generated.C04Levels.precedenceOf.map (·.1)).length = 17 ∧
    Generated.C04Levels.binaryPrecedence.all (fun (ts, c) => ts.all fun t => (bopOfName t).map bopPrec == some (precIdx c)) = true ∧
    (Generated.C04Levels.binaryPrecedence.map (·.1)).flatten.length = 17 ∧
    Generated.C04Levels.incrPrecedence.map precIdx = [goPrec (.incr true false .none), goPrec (.incr false false .none)] ∧
    Generated.C04Levels.parenthesizeTest = "e.precedence() < other.precedence()" ∧
    Generated.C04Levels.lvalueTypes = ["VarExpr", "IndexExpr", "FieldExpr"] :=
  gen_matches_prec

/-! ### non-vacuity -/

/-- `2 ^ - x0` is in the parser's range and prints as `2 ^ ( - x0 )`; `- - x0`, `(1 + 2) * 3` with its written parentheses -/
example : canon false 1 (.binary .pow (.num 2) (.unary .neg (.var 0))) = true := by decide
/-- `x0 (- 1) $($x1)++ a[2]--`: concatenation, `$`, `++ --`, indexing are in the range the theorems cover -/
example : canon false 1 (.binary .concat (.binary .concat (.binary .concat (.var 0) (.group (.unary .neg (.num 1)))) (.incr false false (.field (.group (.field (.var 1)))))) (.incr false true (.index 11 (.num 2)))) = true := by decide
example : showE (.binary .pow (.num 2) (.unary .neg (.var 0))) = [.num 2, .pow, .lparen, .sub, .name 0, .rparen] := by decide
example : canon true 1 (.binary .mul (.group (.binary .add (.num 1) (.num 2))) (.num 3)) = true := by decide
example : Follow true [.cmp .gt, .str 1] := rfl
example : C20Quote.RegexOk [0x61, 0x2f, 0x62] := by decide
/-- `if (c1) { x2; while (c3) { } } else { do { x4 } while (c5) }` followed by a closing brace -/
example : C20Stmt.isStmt (.ifS 1 (.seq (.simple 2) (.seq (.whileS 3 .skip) .skip)) (.seq (.doS (.seq (.simple 4) .skip) 5) .skip)) = true := by decide
example : C20Stmt.hd (C20Stmt.skipNl [.rbrace]) ≠ .kElse := by decide
example : C20Num.toy.Laws := C20Num.toy_laws
/-- `print (1 > 2, x3) > "s4"`: the printer parenthesises the list because of the `>` argument -/
example : C20Simple.okSimple (.print false [.binary (.cmp .gt) (.num 1) (.num 2), .var 3] (some (.cmp .gt, .str 4))) :=
  ⟨by decide, by intro tok d h; cases h; exact ⟨rfl, by decide⟩, by intro h; cases h⟩
example : C20Simple.hasRedirectOp (.binary (.cmp .gt) (.num 1) (.num 2)) = true ∧
    C20Simple.hasRedirectOp (.binary .add (.group (.binary (.cmp .gt) (.num 1) (.num 2))) (.num 3)) = false := by decide

end GoawkModel.C20
