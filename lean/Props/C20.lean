/-! Property theorems for C20 (see /verif/DESIGN.md). Only property theorems and non-vacuity examples live here. -/
