import Proofs.C20Pins
import Proofs.C20Show
import Proofs.C20Quote
import Proofs.C04Gen
import Proofs.C20Stmt
import Proofs.C20Num
import Proofs.C20Simple
/-! Property theorems for C20 (see /verif/DESIGN.md). Only property theorems and non-vacuity examples live here.

Expressions (token level; every tree of the parser's range that C04's theorems cover: everything but the getline forms): `showE` mirrors the `String()` methods of internal/ast/ast.go with
`parenthesize`; `addShow e` is the tree the printed text denotes. String and regex literals (byte level): `quote` /
`lexString`, `formatRegex` / `lexRegex` mirror `quoteString`, the lexer's `parseString`, `formatRegex`, `scanRegex`. -/
namespace GoawkModel.C20
open GoawkModel.C04

/-- The printed form of an expression of the parser's range is accepted by the parser and parses to the same tree
    apart from grouping nodes (`ParserRange` = `canon pc 1`, the trees `parseExpr` produces: C04 `parse_canonical`). -/
theorem show_reparses (e : Expr) (pc : Bool) (rest : List Tok) (hr : canon pc 1 e = true)
    (hf : Follow pc rest) :
    ∃ e', parseExpr pc (showE e ++ rest) = .ok (e', rest) ∧ strip e' = strip e := by
  refine ⟨addShow e, ?_, strip_addShow e⟩
  rw [showE_eq_render e pc 1 hr]
  exact parseExpr_canon pc (addShow e) rest (canon_addShow e pc 1 hr) (by unfold Follow at hf; omega)

/-- Printing the re-parsed tree yields the same text again. -/
theorem show_idempotent (e : Expr) (pc : Bool) (rest : List Tok) (hr : canon pc 1 e = true)
    (hf : Follow pc rest) :
    ∀ e' rest', parseExpr pc (showE e ++ rest) = .ok (e', rest') → showE e' = showE e := by
  intro e' rest' h
  have hs := showE_eq_render e pc 1 hr
  rw [hs, parseExpr_canon pc (addShow e) rest (canon_addShow e pc 1 hr) (by unfold Follow at hf; omega)] at h
  cases h
  rw [showE_eq_render (addShow e) pc 1 (canon_addShow e pc 1 hr), addShow_idem e pc 1 hr]
  exact hs.symm

/-- The printed tokens are the tree's own tokens plus parentheses exactly where `parenthesize` puts them. -/
theorem show_is_render (e : Expr) (pc : Bool) (hr : canon pc 1 e = true) :
    showE e = render (addShow e) :=
  showE_eq_render e pc 1 hr

/-- A printed string literal is read back by the lexer as the same bytes: for every byte string, every `IsPrint`
    predicate on non-ASCII runes, every continuation of the source. -/
theorem quote_roundtrip (printable : Nat → Bool) (s rest : Bytes) :
    C20Quote.lexString ((C20Quote.quote printable s).tail ++ rest) = some (s, rest) :=
  C20Quote.quote_roundtrip printable s rest

/-- A printed regex literal is read back as the same regex, for every regex value the lexer can produce. -/
theorem regex_roundtrip (r rest : Bytes) (h : C20Quote.RegexOk r) :
    C20Quote.lexRegex ((C20Quote.formatRegex r).tail ++ rest) = some (r, rest) :=
  C20Quote.regex_roundtrip r rest h

/-- `RegexOk` is exactly the range of the lexer's regex reader (so `regex_roundtrip` covers every parsed program). -/
theorem regex_range (r : Bytes) : C20Quote.RegexOk r ↔ ∃ src rest, C20Quote.lexRegex src = some (r, rest) :=
  C20Quote.regexOk_iff_lexable r

/-! ### statements: the control-flow skeleton (GoawkModel.C20Stmt) -/

/-- The printed form of a statement of the control-flow skeleton (simple | if/else | while | do | for | for-in | block;
    conditions and simple statements are opaque tokens, covered by `show_reparses` for expressions) is read back by the
    statement parser model as exactly the same tree, whatever follows the line (except a dangling `else`). -/
theorem show_reparses_stmt (s : C20Stmt.S) (rest : List C20Stmt.STok) (hs : C20Stmt.isStmt s = true)
    (hrest : C20Stmt.hd (C20Stmt.skipNl rest) ≠ .kElse) :
    C20Stmt.parseStmt (C20Stmt.showS s ++ .nl :: rest) = some (s, C20Stmt.dropSeps rest, true) :=
  C20Stmt.parseStmt_show s rest hs hrest

/-- … hence printing the re-parsed statement gives the same tokens. -/
theorem show_idempotent_stmt (s : C20Stmt.S) (rest : List C20Stmt.STok) (hs : C20Stmt.isStmt s = true)
    (hrest : C20Stmt.hd (C20Stmt.skipNl rest) ≠ .kElse) :
    ∀ s' r p, C20Stmt.parseStmt (C20Stmt.showS s ++ .nl :: rest) = some (s', r, p) → C20Stmt.showS s' = C20Stmt.showS s := by
  intro s' r p h
  rw [show_reparses_stmt s rest hs hrest] at h
  cases h; rfl

/-! ### simple statements as real syntax (GoawkModel.C20Simple) -/

/-- `hasRedirectOp` is sound for what it is used for: a print argument of the parser's range on which it answers
    `false` prints to an expression that the print-context parser (`printExpr`: no `>`, no `| getline`) reads back. -/
theorem hasRedirectOp_sound (e : Expr) (hc : canon false 1 e = true) (hr : C20Simple.hasRedirectOp e = false) :
    canon true 1 (addShow e) = true :=
  C20Simple.canon_true_addShow e hc hr

/-- The printed form of a simple statement — `print`/`printf` with any argument list (parenthesised by the printer exactly
    when `hasRedirectOp` says so) and `>`, `>>`, `|` redirection, `delete a`, `delete a[i]`, `exit [e]`, `return [e]`,
    `next`, `nextfile`, `break`, `continue`, an expression statement — is read back by the statement parser entry
    `parseSimple` (on top of the C04 expression parser) as the same statement modulo grouping, whatever separator follows. -/
theorem show_reparses_simple (s : C20Simple.Simple) (R : List C20Simple.PTok) (hok : C20Simple.okSimple s)
    (hR : C20Simple.stmtEnd (C20Simple.hdP R) = true) :
    ∃ s', C20Simple.parseSimple (C20Simple.showSimple s ++ R) = .ok (s', R) ∧
      C20Simple.stripSimple s' = C20Simple.stripSimple s :=
  C20Simple.simple_reparses s R hok hR

/-- What is not proved (decided by the implementation-side oracle only): the composition into whole programs over ONE
    token stream — the control-flow skeleton (`show_reparses_stmt`, opaque leaves) instantiated with the real simple
    statements (`show_reparses_simple`) and conditions (`show_reparses`), the items (BEGIN, END, pattern-action with
    range patterns, functions with parameters), multi-dimensional `delete a[i,j]`, calls, regex literals, and the
    byte level (no two adjacent printed tokens fuse; indentation). Stated over an abstract program printer/parser pair
    because the model has no item level yet. -/
def show_reparses_program (Program Text : Type) (print : Program → Text) (parse : Text → Option Program)
    (norm : Program → Program) : Prop :=
  ∀ p, (∃ src, parse src = some p) → ∃ p', parse (print p) = some p' ∧ norm p' = norm p ∧ print p' = print p

/-! ### number literals (NumExpr.String as repaired by G20-1) -/

/-- Printing a number literal is a fixed point of parse-and-print, for every formatter/reader satisfying `Laws`
    (validated on strconv by the harness): `show (parse (show v)) = show v`. -/
theorem num_show_fixed_point {V T : Type} (F : C20Num.NumFmt V T) (L : F.Laws) (v : V) :
    F.show (F.parse (F.show v)) = F.show v :=
  C20Num.show_fixed_point F L v

/-- The value read back agrees with the original to six significant digits. -/
theorem num_show_six_digits {V T : Type} (F : C20Num.NumFmt V T) (L : F.Laws) (v : V) (h : F.isInf v = false) :
    F.fmtG (F.parse (F.show v)) = F.fmtG v :=
  C20Num.show_value_six_digits F L v h

/-- The repair is needed: the pre-G20-1 printer (`%.6g` whenever the value is not an integer) is not a fixed point for a
    formatter satisfying the same laws. -/
theorem num_old_show_fails :
    ∃ (F : C20Num.NumFmt Nat String), F.Laws ∧ ∃ v, C20Num.oldShow F (F.parse (C20Num.oldShow F v)) ≠ C20Num.oldShow F v :=
  C20Num.oldShow_not_fixed_point

/-- Regenerated tie: ast.go's prec constants, every `precedence()` method, `parenthesize`'s test and `IsLValue` are the
    ones the printer model `goPrec` / `parenT` is written from. -/
theorem gen_matches :
    Generated.C04Levels.precConsts.length = 17 ∧
    Generated.C04Levels.precedenceOf.all (fun (t, c) => match sampleOf t with | some e => goPrec e == precIdx c | none => precIdx c == 15 || t == "NamedFieldExpr") = true ∧
    (Generated.C04Levels.precedenceOf.map (·.1)).length = 17 ∧
    Generated.C04Levels.binaryPrecedence.all (fun (ts, c) => ts.all fun t => (bopOfName t).map bopPrec == some (precIdx c)) = true ∧
    (Generated.C04Levels.binaryPrecedence.map (·.1)).flatten.length = 17 ∧
    Generated.C04Levels.incrPrecedence.map precIdx = [goPrec (.incr true false .none), goPrec (.incr false false .none)] ∧
    Generated.C04Levels.parenthesizeTest = "e.precedence() < other.precedence()" ∧
    Generated.C04Levels.lvalueTypes = ["VarExpr", "IndexExpr", "FieldExpr"] :=
  gen_matches_prec

/-! ### non-vacuity -/

/-- `2 ^ - x0` is in the parser's range and prints as `2 ^ ( - x0 )`; `- - x0`, `(1 + 2) * 3` with its written parentheses -/
example : canon false 1 (.binary .pow (.num 2) (.unary .neg (.var 0))) = true := by decide
/-- `x0 (- 1) $($x1)++ a[2]--`: concatenation, `$`, `++ --`, indexing are in the range the theorems cover -/
example : canon false 1 (.binary .concat (.binary .concat (.binary .concat (.var 0) (.group (.unary .neg (.num 1)))) (.incr false false (.field (.group (.field (.var 1)))))) (.incr false true (.index 11 (.num 2)))) = true := by decide
example : showE (.binary .pow (.num 2) (.unary .neg (.var 0))) = [.num 2, .pow, .lparen, .sub, .name 0, .rparen] := by decide
example : canon true 1 (.binary .mul (.group (.binary .add (.num 1) (.num 2))) (.num 3)) = true := by decide
example : Follow true [.cmp .gt, .str 1] := rfl
example : C20Quote.RegexOk [0x61, 0x2f, 0x62] := by decide
/-- `if (c1) { x2; while (c3) { } } else { do { x4 } while (c5) }` followed by a closing brace -/
example : C20Stmt.isStmt (.ifS 1 (.seq (.simple 2) (.seq (.whileS 3 .skip) .skip)) (.seq (.doS (.seq (.simple 4) .skip) 5) .skip)) = true := by decide
example : C20Stmt.hd (C20Stmt.skipNl [.rbrace]) ≠ .kElse := by decide
example : C20Num.toy.Laws := C20Num.toy_laws
/-- `print (1 > 2, x3) > "s4"`: the printer parenthesises the list because of the `>` argument -/
example : C20Simple.okSimple (.print false [.binary (.cmp .gt) (.num 1) (.num 2), .var 3] (some (.cmp .gt, .str 4))) :=
  ⟨by decide, by intro tok d h; cases h; exact ⟨rfl, by decide⟩, by intro h; cases h⟩
example : C20Simple.hasRedirectOp (.binary (.cmp .gt) (.num 1) (.num 2)) = true ∧
    C20Simple.hasRedirectOp (.binary .add (.group (.binary (.cmp .gt) (.num 1) (.num 2))) (.num 3)) = false := by decide

end GoawkModel.C20

/-! ## Pinned source text (regenerated tie; extract/pins.go, tools/repin.py)
An edit of one of these functions in /repo breaks the matching obligation: the model below was written from the text
in `Proofs.C20Pins` and has to be compared with the new text before it is re-pinned. -/
namespace GoawkModel.Pins.C20
theorem pin_program_String : Generated.C20Pins.program_String = Expected.program_String := rfl
theorem pin_stmts_String : Generated.C20Pins.stmts_String = Expected.stmts_String := rfl
theorem pin_action_String : Generated.C20Pins.action_String = Expected.action_String := rfl
theorem pin_parenthesize : Generated.C20Pins.parenthesize = Expected.parenthesize := rfl
theorem pin_quoteString : Generated.C20Pins.quoteString = Expected.quoteString := rfl
theorem pin_fieldExpr_String : Generated.C20Pins.fieldExpr_String = Expected.fieldExpr_String := rfl
theorem pin_namedFieldExpr_String : Generated.C20Pins.namedFieldExpr_String = Expected.namedFieldExpr_String := rfl
theorem pin_unaryExpr_String : Generated.C20Pins.unaryExpr_String = Expected.unaryExpr_String := rfl
theorem pin_binaryExpr_String : Generated.C20Pins.binaryExpr_String = Expected.binaryExpr_String := rfl
theorem pin_inExpr_String : Generated.C20Pins.inExpr_String = Expected.inExpr_String := rfl
theorem pin_condExpr_String : Generated.C20Pins.condExpr_String = Expected.condExpr_String := rfl
theorem pin_numExpr_String : Generated.C20Pins.numExpr_String = Expected.numExpr_String := rfl
theorem pin_strExpr_String : Generated.C20Pins.strExpr_String = Expected.strExpr_String := rfl
theorem pin_regExpr_String : Generated.C20Pins.regExpr_String = Expected.regExpr_String := rfl
theorem pin_varExpr_String : Generated.C20Pins.varExpr_String = Expected.varExpr_String := rfl
theorem pin_indexExpr_String : Generated.C20Pins.indexExpr_String = Expected.indexExpr_String := rfl
theorem pin_assignExpr_String : Generated.C20Pins.assignExpr_String = Expected.assignExpr_String := rfl
theorem pin_augAssignExpr_String : Generated.C20Pins.augAssignExpr_String = Expected.augAssignExpr_String := rfl
theorem pin_incrExpr_String : Generated.C20Pins.incrExpr_String = Expected.incrExpr_String := rfl
theorem pin_callExpr_String : Generated.C20Pins.callExpr_String = Expected.callExpr_String := rfl
theorem pin_userCallExpr_String : Generated.C20Pins.userCallExpr_String = Expected.userCallExpr_String := rfl
theorem pin_multiExpr_String : Generated.C20Pins.multiExpr_String = Expected.multiExpr_String := rfl
theorem pin_getlineExpr_String : Generated.C20Pins.getlineExpr_String = Expected.getlineExpr_String := rfl
theorem pin_groupingExpr_String : Generated.C20Pins.groupingExpr_String = Expected.groupingExpr_String := rfl
theorem pin_printStmt_String : Generated.C20Pins.printStmt_String = Expected.printStmt_String := rfl
theorem pin_printfStmt_String : Generated.C20Pins.printfStmt_String = Expected.printfStmt_String := rfl
theorem pin_exprStmt_String : Generated.C20Pins.exprStmt_String = Expected.exprStmt_String := rfl
theorem pin_ifStmt_String : Generated.C20Pins.ifStmt_String = Expected.ifStmt_String := rfl
theorem pin_forStmt_String : Generated.C20Pins.forStmt_String = Expected.forStmt_String := rfl
theorem pin_forInStmt_String : Generated.C20Pins.forInStmt_String = Expected.forInStmt_String := rfl
theorem pin_whileStmt_String : Generated.C20Pins.whileStmt_String = Expected.whileStmt_String := rfl
theorem pin_doWhileStmt_String : Generated.C20Pins.doWhileStmt_String = Expected.doWhileStmt_String := rfl
theorem pin_breakStmt_String : Generated.C20Pins.breakStmt_String = Expected.breakStmt_String := rfl
theorem pin_continueStmt_String : Generated.C20Pins.continueStmt_String = Expected.continueStmt_String := rfl
theorem pin_nextStmt_String : Generated.C20Pins.nextStmt_String = Expected.nextStmt_String := rfl
theorem pin_nextfileStmt_String : Generated.C20Pins.nextfileStmt_String = Expected.nextfileStmt_String := rfl
theorem pin_exitStmt_String : Generated.C20Pins.exitStmt_String = Expected.exitStmt_String := rfl
theorem pin_deleteStmt_String : Generated.C20Pins.deleteStmt_String = Expected.deleteStmt_String := rfl
theorem pin_returnStmt_String : Generated.C20Pins.returnStmt_String = Expected.returnStmt_String := rfl
theorem pin_blockStmt_String : Generated.C20Pins.blockStmt_String = Expected.blockStmt_String := rfl
theorem pin_list : Generated.C20Pins.pinned = Expected.pinned := rfl
end GoawkModel.Pins.C20
-- end of pinned source text
