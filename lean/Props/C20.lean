import Proofs.C20Show
import Proofs.C20Quote
import Proofs.C04Gen
/-! Property theorems for C20 (see /verif/DESIGN.md). Only property theorems and non-vacuity examples live here.

Expressions (token level; the language of C04's theorems without the blank concatenation operator): `showE` mirrors the `String()` methods of internal/ast/ast.go with
`parenthesize`; `addShow e` is the tree the printed text denotes. String and regex literals (byte level): `quote` /
`lexString`, `formatRegex` / `lexRegex` mirror `quoteString`, the lexer's `parseString`, `formatRegex`, `scanRegex`. -/
namespace GoawkModel.C20
open GoawkModel.C04

/-- The printed form of an expression of the parser's range is accepted by the parser and parses to the same tree
    apart from grouping nodes (`ParserRange` = `canon pc 1`, the trees `parseExpr` produces: C04 `parse_canonical`). -/
theorem show_reparses (e : Expr) (pc : Bool) (rest : List Tok) (hr : canon pc 1 e = true) (hn : noConcat e = true)
    (hf : Follow pc rest) :
    ∃ e', parseExpr pc (showE e ++ rest) = .ok (e', rest) ∧ strip e' = strip e := by
  refine ⟨addShow e, ?_, strip_addShow e⟩
  rw [showE_eq_render e hn pc 1 hr]
  exact parseExpr_canon pc (addShow e) rest (canon_addShow e hn pc 1 hr) (by unfold Follow at hf; omega)

/-- Printing the re-parsed tree yields the same text again. -/
theorem show_idempotent (e : Expr) (pc : Bool) (rest : List Tok) (hr : canon pc 1 e = true) (hn : noConcat e = true)
    (hf : Follow pc rest) :
    ∀ e' rest', parseExpr pc (showE e ++ rest) = .ok (e', rest') → showE e' = showE e := by
  intro e' rest' h
  have hs := showE_eq_render e hn pc 1 hr
  rw [hs, parseExpr_canon pc (addShow e) rest (canon_addShow e hn pc 1 hr) (by unfold Follow at hf; omega)] at h
  cases h
  rw [showE_eq_render (addShow e) (noConcat_addShow e hn) pc 1 (canon_addShow e hn pc 1 hr), addShow_idem e hn pc 1 hr]
  exact hs.symm

/-- The printed tokens are the tree's own tokens plus parentheses exactly where `parenthesize` puts them. -/
theorem show_is_render (e : Expr) (pc : Bool) (hr : canon pc 1 e = true) (hn : noConcat e = true) :
    showE e = render (addShow e) :=
  showE_eq_render e hn pc 1 hr

/-- A printed string literal is read back by the lexer as the same bytes: for every byte string, every `IsPrint`
    predicate on non-ASCII runes, every continuation of the source. -/
theorem quote_roundtrip (printable : Nat → Bool) (s rest : Bytes) :
    C20Quote.lexString ((C20Quote.quote printable s).tail ++ rest) = some (s, rest) :=
  C20Quote.quote_roundtrip printable s rest

/-- A printed regex literal is read back as the same regex, for every regex value the lexer can produce. -/
theorem regex_roundtrip (r rest : Bytes) (h : C20Quote.RegexOk r) :
    C20Quote.lexRegex ((C20Quote.formatRegex r).tail ++ rest) = some (r, rest) :=
  C20Quote.regex_roundtrip r rest h

/-- `RegexOk` is exactly the range of the lexer's regex reader (so `regex_roundtrip` covers every parsed program). -/
theorem regex_range (r : Bytes) : C20Quote.RegexOk r ↔ ∃ src rest, C20Quote.lexRegex src = some (r, rest) :=
  C20Quote.regexOk_iff_lexable r

/-- Regenerated tie: ast.go's prec constants, every `precedence()` method, `parenthesize`'s test and `IsLValue` are the
    ones the printer model `goPrec` / `parenT` is written from. -/
theorem gen_matches :
    Generated.C04Levels.precConsts.length = 17 ∧
    Generated.C04Levels.precedenceOf.all (fun (t, c) => match sampleOf t with | some e => goPrec e == precIdx c | none => precIdx c == 15 || t == "NamedFieldExpr") = true ∧
    (Generated.C04Levels.precedenceOf.map (·.1)).length = 17 ∧
    Generated.C04Levels.binaryPrecedence.all (fun (ts, c) => ts.all fun t => (bopOfName t).map bopPrec == some (precIdx c)) = true ∧
    (Generated.C04Levels.binaryPrecedence.map (·.1)).flatten.length = 17 ∧
    Generated.C04Levels.incrPrecedence.map precIdx = [goPrec (.incr true false .none), goPrec (.incr false false .none)] ∧
    Generated.C04Levels.parenthesizeTest = "e.precedence() < other.precedence()" ∧
    Generated.C04Levels.lvalueTypes = ["VarExpr", "IndexExpr", "FieldExpr"] :=
  gen_matches_prec

/-! ### non-vacuity -/

/-- `2 ^ - x0` is in the parser's range and prints as `2 ^ ( - x0 )`; `- - x0`, `(1 + 2) * 3` with its written parentheses -/
example : canon false 1 (.binary .pow (.num 2) (.unary .neg (.var 0))) = true ∧ noConcat (.binary .pow (.num 2) (.unary .neg (.var 0))) = true := by decide
example : showE (.binary .pow (.num 2) (.unary .neg (.var 0))) = [.num 2, .pow, .lparen, .sub, .name 0, .rparen] := by decide
example : canon true 1 (.binary .mul (.group (.binary .add (.num 1) (.num 2))) (.num 3)) = true := by decide
example : Follow true [.cmp .gt, .str 1] := rfl
example : C20Quote.RegexOk [0x61, 0x2f, 0x62] := by decide

end GoawkModel.C20
