/-! Property theorems for C01 (see /verif/DESIGN.md). Only property theorems and non-vacuity examples live here. -/
