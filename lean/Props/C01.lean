import Proofs.C01Expr
import Proofs.C01Stmt
import Proofs.C01ConcLaws
import Proofs.C01Tables
import Proofs.C01StmtSim
import Proofs.C01Witness
import Proofs.C01FramesCor
import Proofs.C01Norm
import Proofs.C01Ends
import Proofs.C01Ret
/-!
# C01 — compiled execution preserves the meaning of the parsed program

Model: `GoawkModel.C01` (`eval`/`exec` = direct evaluation of the resolved syntax tree; `cExpr`/`cStmt` = compiler.go;
`stepTo`/`run` = the dispatch loop of vm.go). Values and primitive operations are parameters (`Sem`) shared by both sides;
`Laws`/`StmtLaws` are the relations between primitives that the compiler's shortcuts rely on (all hold for the concrete
semantics `semC`, see `semC_laws`). Every theorem is for all expressions, stacks, worlds and code contexts — no bounds.
-/
namespace GoawkModel.C01.Props
open GoawkModel GoawkModel.C01

variable {S : Sem}

/-- FULL statement of the property on the model (Stage B): whatever the reference semantics yields for a whole block
(normal completion, `next`, `exit`), the compiled code run by the VM from its first instruction with an empty stack yields
too, with the same world (output log, variables, arrays, record, exit status). `p.WF`: the `pre` / `post` parts of `for`
statements are simple statements, as the grammar guarantees. -/
def CompileStmtCorrect (S : Sem) : Prop :=
  ∀ (p : Stmt) (w : S.W) (n : Nat), p.WF →
    (∀ w', exec S n p w = some (.normal w') → ∃ m, run S (cStmt 0 0 p) m ⟨0, [], w⟩ = .normal w') ∧
    (∀ w', exec S n p w = some (.next w') → ∃ m, run S (cStmt 0 0 p) m ⟨0, [], w⟩ = .next w') ∧
    (∀ w', exec S n p w = some (.exit w') → ∃ m, run S (cStmt 0 0 p) m ⟨0, [], w⟩ = .exit w')

/-- Stage B, outcome-indexed simulation (`compile_stmt_sim`): for EVERY statement — expression statements with the
statement-position shortcuts, `print`, blocks, `if`/`else` through the fused or unfused inverted condition, `while`,
`do`-`while`, `for (;;)` with and without condition, `break`, `continue`, `next`, `exit` — compiled inside any loop context
(`bk` / `ct` = where the enclosing loop patches its break / continue jumps) and placed anywhere, with any stack: if
`exec` gives outcome `o` then the VM reaches, stack unchanged and with `exec`'s world, the end of the statement's code
(normal), the break target, the continue target, or halts with `next` / `exit`. No bound on nesting or iterations. -/
theorem compile_stmt_sim (L : Laws S) (M : StmtLaws S) (n : Nat) (s : Stmt) (bk ct : Nat) (stk : List S.V) (w : S.W)
    (o : Out S.V S.W) (hwf : s.WF) (h : exec S n s w = some o) :
    OutAt S (cStmt bk ct s) 0 (stmtSize s) (stmtSize s + bk) (stmtSize s + ct) stk w o :=
  (stmt_sim L M n).1 s bk ct stk w o hwf h

/-- Stage B (`compile_stmt_correct`): the full statement holds. -/
theorem compile_stmt_correct (L : Laws S) (M : StmtLaws S) : CompileStmtCorrect S := by
  intro p w n hwf
  have key := fun o => compile_stmt_sim L M n p 0 0 [] w o hwf
  have hC : CodeAt (cStmt 0 0 p) 0 (cStmt 0 0 p) := CodeAt.whole _
  refine ⟨?_, ?_, ?_⟩
  · intro w' h
    have r := key _ h (cStmt 0 0 p) 0 hC
    exact run_of_reach (by simpa using r) (by simp)
  · intro w' h
    have r := key _ h (cStmt 0 0 p) 0 hC
    exact run_of_halts (by simpa using r)
  · intro w' h
    have r := key _ h (cStmt 0 0 p) 0 hC
    exact run_of_halts (by simpa using r)

/-- non-vacuity of Stage B: both law bundles hold for the concrete integer/string semantics -/
theorem stage_b_for_semC : CompileStmtCorrect (semC false) := compile_stmt_correct (semC_laws false) semC_stmtLaws

/-- G01-1 stated on the model: `Laws.concat_stable` is necessary. In the semantics `semFmt` (concatenation depends on a
format held in the world, every other law holds) the program `print 1 2 (FORMAT = 5)` prints 13 under direct evaluation of
the syntax tree and 18 when compiled (ConcatMulti converts after the last operand changed the format). -/
theorem concatMulti_differs_without_stability :
    (∀ b, semFmt.toBool (semFmt.ofBool b) = b) ∧
    (∀ a b w, semFmt.cmp .ne a b w = !semFmt.cmp .eq a b w) ∧
    (∀ v1 v2 rest w, semFmt.concatMulti (v1 :: v2 :: rest) w = (v2 :: rest).foldl (fun acc v => semFmt.concat acc v w) v1) ∧
    ¬ (∀ a b w w', semFmt.concat a b w = semFmt.concat a b w') ∧
    exec semFmt 3 g011Witness (0, []) = some (.normal (5, [13])) ∧
    run semFmt (cStmt 0 0 g011Witness) 20 ⟨0, [], (0, [])⟩ = .normal (5, [18]) :=
  GoawkModel.C01.concatMulti_differs_without_stability

/-- Stage A (`compile_expr_correct`): for EVERY expression — all operators, `&&`/`||`/`?:` with their jumps, fused
conditions inside `?:`, `FieldInt`, constant subscripts, `ConcatMulti`, assignment / `op=` / `++` / `--` on every lvalue
kind — if direct evaluation gives `(v, w')` then the compiled code, wherever it sits in a program and whatever is on the
stack, runs to its end leaving `v` pushed and the world `w'`. -/
theorem compile_expr_correct (L : Laws S) (e : Expr) (C : Code) (pc : Nat) (s : List S.V) (w : S.W) (v : S.V) (w' : S.W)
    (hc : CodeAt C pc (cExpr e)) (h : eval S e w = some (v, w')) :
    Reach S C ⟨pc, s, w⟩ ⟨pc + csize (cExpr e), v :: s, w'⟩ :=
  (expr_all L e).1 s w v w' h C pc hc

/-- the same, for the expression compiled on its own (a pattern): the VM halts normally with the evaluator's world -/
theorem compile_expr_run (L : Laws S) (e : Expr) (w : S.W) (v : S.V) (w' : S.W) (h : eval S e w = some (v, w')) :
    ∃ n, run S (cExpr e) n ⟨0, [], w⟩ = .normal w' := by
  have r := compile_expr_correct L e (cExpr e) 0 [] w v w' (CodeAt.whole _) h
  exact run_of_reach r (by simp)

/-- Stage A2 (`condition_correct`), inverted sense as used by `if`, `while` entry, `for` entry and `?:`: after the condition
code, the returned jump opcode restores the stack and jumps exactly when the condition is FALSE. Covers the fused
`JumpEquals`/`JumpNotEquals` and — as repaired by F01 — the unfused ordering comparisons. -/
theorem condition_correct_inverted (L : Laws S) (c : Expr) (s : List S.V) (w : S.W) (cv : S.V) (w1 : S.W)
    (h : eval S c w = some (cv, w1)) :
    ∃ s1, Frag S (cCondT c) s w s1 w1 ∧
      ∀ off, execInstr S (cJumpT c off) s1 w1 = some (condJump S (!S.toBool cv) off s w1) :=
  condT_spec L (expr_all L c).1 (expr_all L c).2.2 s w cv w1 h

/-- normal sense as used at the bottom of `while`/`for`/`do` loops: all six comparisons fused; the jump is taken exactly
when the condition is TRUE. `cmp` is an arbitrary function: no order law (so NaN-like values) is assumed. -/
theorem condition_correct (L : Laws S) (c : Expr) (s : List S.V) (w : S.W) (cv : S.V) (w1 : S.W)
    (h : eval S c w = some (cv, w1)) :
    ∃ s1, Frag S (cCondF c) s w s1 w1 ∧
      ∀ off, execInstr S (cJumpF c off) s1 w1 = some (condJump S (S.toBool cv) off s w1) :=
  condF_spec L (expr_all L c).1 (expr_all L c).2.2 s w cv w1 h

/-- Corollary named in the property: statement-position `x = e`, `x++`, `--x`, `x op= e` (for variables of every scope,
fields and array elements) behave like the expression-position code followed by `Drop`: same final world, stack unchanged. -/
theorem stmt_position_eq_expr_position (L : Laws S) (M : StmtLaws S) (e : Expr) (s : List S.V) (w : S.W) (v : S.V) (w' : S.W)
    (h : eval S e w = some (v, w')) :
    Frag S (cExprStmt e) s w s w' ∧ Frag S (cExpr e ++ [.drop]) s w s w' :=
  ⟨exprStmt_correct L M e s w v w' h, exprDrop_correct L e s w v w' h⟩

/-- Corollary: `$<const>` (`FieldInt`) ≡ `$(<const>)` (`Num; Field`) -/
theorem fieldInt_shortcut (L : Laws S) (c : NumC) (s : List S.V) (w : S.W) :
    Frag S (cExpr (.field (.num c))) s w (S.getField (S.numV c) w :: s) w ∧
    Frag S (cExpr (.field (.group (.num c)))) s w (S.getField (S.numV c) w :: s) w :=
  ⟨(expr_all L _).1 s w _ w (by simp [eval]), (expr_all L _).1 s w _ w (by simp [eval])⟩

/-- Corollary: constant subscript `a[<int>]` (compiled to the string constant) ≡ the subscript evaluated at run time -/
theorem const_index_shortcut (L : Laws S) (sc : AScope) (a : Nat) (c : NumC) (s : List S.V) (w : S.W) :
    Frag S (cExpr (.index sc a (.num c))) s w ((S.getArr sc a (S.numV c) w).1 :: s) (S.getArr sc a (S.numV c) w).2 ∧
    Frag S (cExpr (.index sc a (.group (.num c)))) s w ((S.getArr sc a (S.numV c) w).1 :: s) (S.getArr sc a (S.numV c) w).2 :=
  ⟨(expr_all L _).1 s w _ _ (by simp [eval]), (expr_all L _).1 s w _ _ (by simp [eval])⟩

/-- Corollary: a flattened chain (`ConcatMulti 3`) ≡ the nested two-operand concatenations of the regrouped spelling.
Needs `Laws.concat_stable` (number-to-string conversion does not change while the chain is evaluated); without it the
real code differs — recorded finding G01-1, replayed by the harness. -/
theorem concatMulti_eq_nested (L : Laws S) (x y z : Expr) (s : List S.V) (w : S.W) (v : S.V) (w' : S.W)
    (h : eval S (.concat (.concat x y) z) w = some (v, w')) :
    Frag S (cExpr (.concat (.concat x y) z)) s w (v :: s) w' ∧ Frag S (cExpr (.concat (.group (.concat x y)) z)) s w (v :: s) w' :=
  ⟨(expr_all L _).1 s w v w' h, (expr_all L _).1 s w v w' (by simpa [eval] using h)⟩

/-- Stage A2 tie: the fused-jump table of `condition` (normal: all six comparisons; inverted: only `==`/`!=`), `binaryOp`,
the statement-position `AugOp` table and the operator each VM case applies, as EXTRACTED from compiler.go / vm.go on this
run, are the tables of the model the theorems above are about. Swapping `JumpLess`/`JumpLessOrEqual`, fusing an inverted
ordering comparison again, or changing an operator in a `Jump*` case breaks one of these. -/
theorem gen_matches :
    Generated.C01Tables.condFused = modelCondFused ∧
    Generated.C01Tables.condUnfusedWhenInverted = modelUnfusedWhenInverted ∧
    (CmpOp.all.map fun op => (lookup Generated.C01Tables.vmCompare op.opName, lookup Generated.C01Tables.vmCompare op.jumpName))
      = CmpOp.all.map fun op => (op.goOp, op.goOp) :=
  ⟨gen_matches_condFused, gen_matches_condUnfused, gen_matches_vmCompare⟩

theorem gen_matches_ops :
    ((CmpOp.all.map fun op => lookup Generated.C01Tables.binaryOp op.token) = CmpOp.all.map (·.opName) ∧
     (ArithOp.all.map fun op => lookup Generated.C01Tables.binaryOp op.token) = ArithOp.all.map (·.opName)) ∧
    (ArithOp.all.map augOf = ArithOp.all.map (·.augName) ∧
     ArithOp.all.map (fun op => vmAugOf (augOf op)) = ArithOp.all.map (·.goOp)) :=
  ⟨gen_matches_binaryOp, gen_matches_augOp⟩


/-! ### user functions and call frames -/

/-- the concrete integer/string semantics as a base semantics with `g` global arrays -/
def baseC (g : Nat) : Base where
  S := semC false
  arrCount w := max g w.arrays.length
  arrPush w := { w with arrays := Conc.setNth w.arrays (max g w.arrays.length) [] }
  arrTrunc n w := { w with arrays := w.arrays.take n }

/-- **compile_call_correct** — programs with user functions. `FS B FT n` is the direct tree semantics with frames (scalar
arguments by value, missing ones null, arrays by reference, fresh local arrays, private frame, depth limit), `RBig` the VM
with frames exactly as `CallUser` of vm.go: the frame is the slice of the value stack holding the pushed arguments and
`Nulls`, locals are those slots, the callee runs as a nested `execute`, on return the slots are popped and the result
pushed. For every function table whose bodies are well-formed, every block, every call-nesting fuel and statement fuel:
normal completion, `next` and `exit` of the tree semantics are reproduced by the VM with the same world. Recursion is
covered (induction on the call fuel). `next` / `exit` from INSIDE a function body are outside the model. -/
theorem compile_call_correct {B : Base} (FT : FunTable) (L : Laws B.S) (M : StmtLaws B.S) (hFT : ∀ fn ∈ FT, fn.body.WF)
    (n m : Nat) (p : Stmt) (hp : p.WF) (w : B.S.W) :
    (∀ fw', exec (FS B FT n) m p (topFrame B, w) = some (.normal fw') →
      RBig B FT (cStmt 0 0 p) ⟨0, [], topInfo, w⟩ (.normal [] (fw' : FW B).2)) ∧
    (∀ fw', exec (FS B FT n) m p (topFrame B, w) = some (.next fw') →
      RBig B FT (cStmt 0 0 p) ⟨0, [], topInfo, w⟩ (.next (fw' : FW B).2)) ∧
    (∀ fw', exec (FS B FT n) m p (topFrame B, w) = some (.exit fw') →
      RBig B FT (cStmt 0 0 p) ⟨0, [], topInfo, w⟩ (.exit (fw' : FW B).2)) :=
  GoawkModel.C01.compile_call_correct FT L M hFT n m p hp w

/-- the refinement behind it, for code placed anywhere and any stack below the frame: every run of the VM over the framed
semantics (calls as one step) is a run of the VM with frames on the value stack (calls as nested activations) -/
theorem vm_frames_refine {B : Base} (FT : FunTable) (L : Laws B.S) (M : StmtLaws B.S) (hFT : ∀ fn ∈ FT, fn.body.WF) (n : Nat) :
    Refines B FT n := refines_all FT L M hFT n

/-- `call_locals_fresh`: the callee's frame is exactly the evaluated arguments followed by nulls — on every call, whatever
ran before; together with `compile_call_correct` the compiled code's `Nulls` + frame slice give the same frame. -/
theorem call_locals_fresh {B : Base} (FT : FunTable) (n f nsc : Nat) (args : List Expr) (refs : List (AScope × Nat)) (fw : FW B) :
    eval (FS B FT (n + 1)) (.call f nsc args refs) fw =
      (evalList (FS B FT (n + 1)) args fw).bind fun (r : List B.S.V × FW B) =>
        if r.1.length ≤ nsc then
          callBody B FT (callN B FT n) n f ((r.1 : List B.S.V) ++ List.replicate (nsc - r.1.length) B.S.nullV) refs r.2
        else none :=
  eval_call_frame FT n f nsc args refs fw

/-- scalars by value / private frame: a call returns the caller's frame (its locals, its local arrays' ids) unchanged -/
theorem call_scalars_by_value {B : Base} (FT : FunTable) (n f : Nat) (vs : List B.S.V) (refs : List (AScope × Nat)) (fw : FW B)
    (r : B.S.V × FW B) (h : callN B FT n f vs refs fw = some r) : r.2.1 = fw.1 :=
  call_keeps_caller_frame FT n f vs refs fw r h

/-- the frame slots: slot `k` of a frame lying on the stack is the `k`-th local, wherever the frame lies and whatever is
pushed above it -/
theorem frame_slot_read {B : Base} (tmp L below : List B.S.V) (la : List Nat) (d k : Nat) :
    getLocal B (tmp ++ L.reverse ++ below) ⟨below.length, L.length, la, d⟩ k = L.getD k B.S.nullV :=
  getLocal_frame tmp L below la d k

/-- `interp.pushNulls` on the stack MEMORY (array + stack pointer, stale values above `sp`): fresh nulls whatever the slots
held, and whether or not the array had to grow (the seeded change C01-m3 broke exactly this) -/
theorem pushNulls_fresh {V} (d : V) (mem : List V) (sp num : Nat) (h : sp ≤ mem.length) :
    (pushNullsMem d mem sp num).2 = sp + num ∧
    ((pushNullsMem d mem sp num).1.take (pushNullsMem d mem sp num).2).reverse =
      List.replicate num d ++ (mem.take sp).reverse :=
  pushNullsMem_spec d mem sp num h

/-- non-vacuity: the hypotheses of `compile_call_correct` hold for the concrete semantics -/
theorem call_correct_for_semC (g : Nat) (FT : FunTable) (hFT : ∀ fn ∈ FT, fn.body.WF) (n m : Nat) (p : Stmt) (hp : p.WF) (w : CW)
    (fw' : FW (baseC g)) (h : exec (FS (baseC g) FT n) m p (topFrame (baseC g), w) = some (.normal fw')) :
    RBig (baseC g) FT (cStmt 0 0 p) ⟨0, [], topInfo, w⟩ (.normal [] fw'.2) :=
  (GoawkModel.C01.compile_call_correct (B := baseC g) FT (semC_laws false) semC_stmtLaws hFT n m p hp w).1 fw' h

/-- non-vacuity: the laws hold for the concrete integer/string semantics used by the behaviour correspondence -/
theorem laws_hold_for_semC (b : Bool) : Laws (semC b) := semC_laws b

-- non-vacuity: the shapes the corollaries talk about really are the shortcut code
example : cExpr (.field (.num ⟨true, 2⟩)) = [.fieldInt 2] := by simp [cExpr, cE, NumC.int32?]
example : cExpr (.field (.group (.num ⟨true, 2⟩))) = [.num ⟨true, 2⟩, .field] := by simp [cExpr, cE]
example : cExpr (.concat (.concat (.str [97]) (.str [98])) (.str [99])) = [.str [97], .str [98], .str [99], .concatMulti 3] := by
  simp [cExpr, cE]
example : cExprStmt (.augAssign (.var .global 0) .add (.num ⟨true, 1⟩)) = [.num ⟨true, 1⟩, .augVar .global .add 0] := by
  simp [cExprStmt, cExpr, cE]
example : cCondT (.cmp .eq (.var .global 0) (.num .one)) ++ [cJumpT (.cmp .eq (.var .global 0) (.num .one)) 5] =
    [.getVar .global 0, .num .one, .jumpCmp .ne 5] := by simp [cCondT, cJumpT, cExpr, cE]
example : cCondT (.cmp .lt (.var .global 0) (.num .one)) ++ [cJumpT (.cmp .lt (.var .global 0) (.num .one)) 5] =
    [.getVar .global 0, .num .one, .cmp .lt, .jumpFalse 5] := by simp [cCondT, cJumpT, cExpr, cE]
-- non-vacuity of Stage B: a loop with break and continue really runs under `exec` (hypothesis of `compile_stmt_correct`)
example : (exec (semC false) 30
    (.seq (.for (.expr (.assign (.var .global 0) (.num ⟨true, 0⟩))) (some (.cmp .lt (.var .global 0) (.num ⟨true, 5⟩)))
      (.expr (.incr (.var .global 0) false false))
      (.seq (.ifThen (.cmp .eq (.var .global 0) (.num ⟨true, 1⟩)) .cont)
        (.seq (.ifThen (.cmp .eq (.var .global 0) (.num ⟨true, 3⟩)) .brk) (.print [.var .global 0])))) .skip) {}).map
    (fun o => match o with | .normal w => w.out | _ => []) = some [48, 10, 50, 10] := by
  simp [exec, loopBody, eval, evalList, semC, Conc.cmp, Conc.asNumber, Conc.cmpWith, Conc.toBool, Conc.arith, Conc.toNum, Conc.big,
    Conc.getNth, Conc.setNth, Conc.printVals, Conc.joinFields, Conc.toStr, Conc.intBytes, decBytes, incrArith, NumC.one]
  first | done | decide
example : (Stmt.for (.expr (.assign (.var .global 0) (.num ⟨true, 0⟩))) (some (.cmp .lt (.var .global 0) (.num ⟨true, 5⟩)))
    (.expr (.incr (.var .global 0) false false)) .brk).WF := by simp [Stmt.WF, Stmt.Simple]
-- non-vacuity of `compile_call_correct`: a recursive function with an omitted local really runs in the framed semantics:
-- function f(n, l) { if (l != 0) return 99; l = 7; if (n <= 0) return 0; return n + f(n - 1) }  BEGIN { print f(3) }
def recFT : FunTable := [⟨2, 0,
  .seq (.ifThen (.cmp .ne (.var .loc 1) (.num ⟨true, 0⟩)) (.ret (some (.num ⟨true, 99⟩))))
    (.seq (.expr (.assign (.var .loc 1) (.num ⟨true, 7⟩)))
      (.seq (.ifThen (.cmp .le (.var .loc 0) (.num ⟨true, 0⟩)) (.ret (some (.num ⟨true, 0⟩))))
        (.ret (some (.arith .add (.var .loc 0) (.call 0 2 [.arith .sub (.var .loc 0) (.num ⟨true, 1⟩)] []))))))⟩]
example : (exec (FS (baseC 0) recFT 12) 10 (.print [.call 0 2 [.num ⟨true, 3⟩] []]) (topFrame (baseC 0), {})).map
    (fun o => match o with | .normal fw => fw.2.out | _ => []) = some [54, 10] := by decide
example : ∀ fn ∈ recFT, fn.body.WF := by simp [recFT, Stmt.WF]
-- non-vacuity: a concrete evaluation satisfying the hypothesis of `compile_expr_correct`
example : (eval (semC false) (.assign (.var .global 0) (.arith .add (.num ⟨true, 2⟩) (.num ⟨true, 3⟩))) {}).map (·.1) = some (CV.num 5) := by
  simp [eval, semC, Conc.arith, Conc.toNum, Conc.big]

/-! ## normalised values: the final `Boolean` of `&&` / `||` and the shared number space of opcodes and operands -/

/-- `&&`, `||`, the six comparisons and `!` used as VALUES: direct evaluation gives `ofBool _` (0 or 1), and the compiled code,
wherever it sits, leaves exactly that normalised value on the stack — never the raw value of an operand -/
theorem logical_value_normalised (L : Laws S) (e : Expr)
    (he : (∃ l r, e = .and l r) ∨ (∃ l r, e = .or l r) ∨ (∃ op l r, e = .cmp op l r) ∨ (∃ x, e = .unary .not x))
    (C : Code) (pc : Nat) (s : List S.V) (w : S.W) (v : S.V) (w' : S.W)
    (hc : CodeAt C pc (cExpr e)) (h : eval S e w = some (v, w')) :
    (∃ b, v = S.ofBool b) ∧ Reach S C ⟨pc, s, w⟩ ⟨pc + csize (cExpr e), v :: s, w'⟩ := by
  refine ⟨?_, compile_expr_correct L e C pc s w v w' hc h⟩
  rcases he with ⟨l, r, rfl⟩ | ⟨l, r, rfl⟩ | ⟨op, l, r, rfl⟩ | ⟨x, rfl⟩
  · exact and_value_normalised l r w v w' h
  · exact or_value_normalised l r w v w' h
  · exact cmp_value_normalised op l r w v w' h
  · exact not_value_normalised x w v w' h

/-- the final `Boolean` of `l && r` is what normalises: the emitted code is `andNoBoolean l r ++ [Boolean]`, and the part before
it, run on a true `l`, ends with the RAW value of `r` on the stack -/
theorem boolean_needed_after_and (L : Laws S) (l r : Expr) (s : List S.V) (w w1 w' : S.W) (lv rv : S.V)
    (hl : eval S l w = some (lv, w1)) (hb : S.toBool lv = true) (hr : eval S r w1 = some (rv, w')) :
    cExpr (.and l r) = andNoBoolean l r ++ [.boolean] ∧ Frag S (andNoBoolean l r) s w (rv :: s) w' :=
  ⟨cExpr_and_eq l r, and_without_boolean_raw L l r s w w1 w' lv rv hl hb hr⟩

theorem boolean_needed_after_or (L : Laws S) (l r : Expr) (s : List S.V) (w w1 w' : S.W) (lv rv : S.V)
    (hl : eval S l w = some (lv, w1)) (hb : S.toBool lv = false) (hr : eval S r w1 = some (rv, w')) :
    cExpr (.or l r) = orNoBoolean l r ++ [.boolean] ∧ Frag S (orNoBoolean l r) s w (rv :: s) w' :=
  ⟨cExpr_or_eq l r, or_without_boolean_raw L l r s w w1 w' lv rv hl hb hr⟩

/-- opcodes and inline operands share one number space (the real opcode list, regenerated from opcodes.go): for exactly the
field numbers 48–53, 55–57, 60 the last WORD of the code of `$n` is the number of a boolean-producing opcode although its last
INSTRUCTION is `FieldInt n` -/
theorem operand_words_look_like_opcodes :
    [48, 49, 50, 51, 52, 53, 55, 56, 57, 60].all (fun n =>
      cExpr (fieldN n) == [.fieldInt n] &&
      lastWordLooksBoolean realOps (encode realOps (cExpr (fieldN n))) &&
      !endsInBooleanInstr (cExpr (fieldN n))) = true ∧
    ((List.range 100).filter fun n => lastWordLooksBoolean realOps (encode realOps (cExpr (fieldN n)))) =
      [48, 49, 50, 51, 52, 53, 55, 56, 57, 60] :=
  ⟨last_word_ambiguous, last_word_ok_elsewhere⟩

/-- a peephole that drops the final `Boolean` of `&&` when the last code WORD of both operands is a boolean-producing opcode
number changes the meaning: `print ($48 && $49)` prints 149 instead of 1 (and leaves `$5 && $6` alone) — the seeded change C01-p1 -/
theorem boolean_elision_by_last_word_fails :
    exec semFld 3 (.print [.and (fieldN 48) (fieldN 49)]) [] = some (.normal [1]) ∧
    run semFld (cExpr (.and (fieldN 48) (fieldN 49)) ++ [.print 1]) 20 ⟨0, [], []⟩ = .normal [1] ∧
    run semFld (cAndPeephole (fun c => lastWordLooksBoolean realOps (encode realOps c)) (fieldN 48) (fieldN 49) ++ [.print 1]) 20 ⟨0, [], []⟩
      = .normal [149] ∧
    cAndPeephole (fun c => lastWordLooksBoolean realOps (encode realOps c)) (fieldN 5) (fieldN 6) = cExpr (.and (fieldN 5) (fieldN 6)) :=
  word_peephole_unsound

/-- even looking at the last INSTRUCTION is not enough: `c ? t : f` ends with the code of `f` only -/
theorem boolean_elision_by_last_instr_fails :
    endsInBooleanInstr (cExpr ternCmp) = true ∧
    exec semFld 3 (.print [.and (.cmp .lt (.num ⟨true, 5⟩) (.num ⟨true, 7⟩)) ternCmp]) [] = some (.normal [1]) ∧
    run semFld (cAndPeephole endsInBooleanInstr (.cmp .lt (.num ⟨true, 5⟩) (.num ⟨true, 7⟩)) ternCmp ++ [.print 1]) 30 ⟨0, [], []⟩
      = .normal [7] :=
  last_instr_peephole_unsound

-- non-vacuity: the hypotheses of `boolean_needed_after_and` / `logical_value_normalised` are satisfiable (semFld: `$n` = 100 + n)
example : eval semFld (fieldN 48) [] = some ((148 : Nat), ([] : List Nat)) ∧ semFld.toBool (148 : Nat) = true ∧
    eval semFld (fieldN 49) [] = some ((149 : Nat), ([] : List Nat)) := by
  refine ⟨?_, ?_, ?_⟩ <;> rfl
example : eval semFld (.and (fieldN 48) (fieldN 49)) [] = some ((1 : Nat), ([] : List Nat)) := by rfl
example : eval (semC false) (.or (.num ⟨true, 0⟩) (.num ⟨true, 7⟩)) {} = some (CV.num 1, {}) := by
  simp [eval, semC, Conc.toBool]

/-! ## File output, however the run ends (model `GoawkModel.C01Ends`: buffered streams, `closeAll` when execution ends) -/

/-- FILE OUTPUT, for every program (sequence of output actions ending at the first run-time error or `exit`), every buffering
policy (how much of a stream's buffer reaches the file after a write — any function; bufio's 64 KiB rule is one), every initial
content of the files and EVERY KIND OF ENDING: after `executeAll` (run, then the deferred `closeAll`) each file holds exactly
what direct evaluation, in which a destination is a log, leaves in it; no byte stays in a buffer; and the run ends the same way
(normally / by exit / with an error). -/
theorem files_after_run_are_the_log (pol : Ends.Policy) (acts : List Ends.Act) (files : Nat → Bytes) :
    (∀ m, ((Ends.executeAll pol acts (Ends.initImpl files)).1 m).file = ((Ends.specRun acts (Ends.initSpec files)).1 m).file ∧
          ((Ends.executeAll pol acts (Ends.initImpl files)).1 m).buf = []) ∧
    (Ends.executeAll pol acts (Ends.initImpl files)).2 = (Ends.specRun acts (Ends.initSpec files)).2 := by
  have h := Ends.rel_run pol acts _ _ (Ends.rel_init files)
  exact ⟨fun m => Ends.close_file (h.1 m), h.2⟩

/-- corollary: what is in the files does not depend on the size or policy of the buffers -/
theorem files_do_not_depend_on_buffering (pol₁ pol₂ : Ends.Policy) (acts : List Ends.Act) (files : Nat → Bytes) (m : Nat) :
    ((Ends.executeAll pol₁ acts (Ends.initImpl files)).1 m).file = ((Ends.executeAll pol₂ acts (Ends.initImpl files)).1 m).file := by
  rw [((files_after_run_are_the_log pol₁ acts files).1 m).1, ((files_after_run_are_the_log pol₂ acts files).1 m).1]

/-- the seeded change C01-p3 (`closeAll` on the success path only) on a concrete program: `print "x" > f` followed by a
run-time error leaves the file empty (the byte is still in the stream's buffer), direct evaluation leaves "x" in it -/
theorem close_on_success_path_only_loses_output :
    ((Ends.executeAllP3 (fun _ => 0) [.print 0 true [120], .fail] (Ends.initImpl fun _ => [])).1 0).file = [] ∧
    ((Ends.executeAllP3 (fun _ => 0) [.print 0 true [120], .fail] (Ends.initImpl fun _ => [])).1 0).buf = [120] ∧
    ((Ends.specRun [.print 0 true [120], .fail] (Ends.initSpec fun _ => [])).1 0).file = [120] ∧
    (Ends.specRun [.print 0 true [120], .fail] (Ends.initSpec fun _ => [])).2 = .error := by
  refine ⟨?_, ?_, ?_, ?_⟩ <;> rfl

/-- ... and why no test of normal or `exit` endings notices that change: without a run-time error it is `executeAll` -/
theorem close_on_success_path_only_agrees_without_error (pol : Ends.Policy) (acts : List Ends.Act) (σ : Nat → Ends.St)
    (h : (Ends.implRun pol acts σ).2 ≠ .error) : Ends.executeAllP3 pol acts σ = Ends.executeAll pol acts σ := by
  simp [Ends.executeAllP3, Ends.executeAll, h]

-- non-vacuity: a run that ends with an error after buffered output to two destinations, one of them closed and re-opened
example : ((Ends.executeAll (fun n => if n > 2 then n else 0)
      [.print 0 true [1, 2], .print 1 false [7], .close 0, .print 0 true [3], .print 0 false [4, 5, 6], .fail, .print 0 true [9]]
      (Ends.initImpl fun m => if m = 1 then [100] else [50])).1 0).file = [3, 4, 5, 6] := by rfl
example : ((Ends.executeAll (fun _ => 0) [.print 1 false [7], .fail] (Ends.initImpl fun m => if m = 1 then [100] else [50])).1 1).file = [100, 7] ∧
    (Ends.executeAll (fun _ => 0) [.print 1 false [7], .fail] (Ends.initImpl fun _ => [])).2 = .error ∧
    (Ends.implRun (fun _ => 0) [.print 0 true [1], .exit] (Ends.initImpl fun _ => [])).2 ≠ .error := by
  refine ⟨?_, ?_, ?_⟩ <;> decide

/-! ## the value of a call by the way the callee is left: `return expr`, bare `return`, falling off the end -/

/-- a bare `return` leaves the activation with the null value in EVERY world — whatever ran before (earlier calls and the
values they returned are part of `w`, and do not matter) -/
theorem bare_return_is_null (S : Sem) (n : Nat) (w : S.W) : exec S (n + 1) (.ret none) w = some (.ret S.nullV w) := by
  simp [exec]

/-- a statement that holds no `return expr` — its expressions and the calls in them are arbitrary — can leave the
activation only with the null value -/
theorem no_valued_return_leaves_with_null (S : Sem) (n : Nat) (s : Stmt) (w : S.W) (v : S.V) (w' : S.W)
    (hs : s.NoValRet) (h : exec S n s w = some (.ret v w')) : v = S.nullV :=
  exec_ret_null S n s w v w' hs h

/-- **call_value_null_without_valued_return** — in the framed tree semantics a call of a function whose body holds no
`return expr` evaluates to null, whatever the calls made by the body (`callf`, arbitrary) returned: a value returned to the
callee never becomes the callee's own value (seeded change C01-q3 broke this for a bare `return`) -/
theorem call_value_null_without_valued_return {B : Base} (FT : FunTable)
    (callf : Nat → List B.S.V → List (AScope × Nat) → FW B → Option (B.S.V × FW B))
    (k f : Nat) (vals : List B.S.V) (refs : List (AScope × Nat)) (fw : FW B) (fn : Fn) (r : B.S.V × FW B)
    (hf : FT[f]? = some fn) (hb : fn.body.NoValRet) (h : callBody B FT callf k f vals refs fw = some r) : r.1 = B.S.nullV :=
  callBody_null FT callf k f vals refs fw fn r hf hb h

/-- the same for the call EXPRESSION of the framed semantics with any call-nesting fuel -/
theorem call_expr_null_without_valued_return {B : Base} (FT : FunTable) (n f nsc : Nat) (args : List Expr)
    (refs : List (AScope × Nat)) (fw : FW B) (fn : Fn) (v : B.S.V) (fw' : FW B)
    (hf : FT[f]? = some fn) (hb : fn.body.NoValRet)
    (h : eval (FS B FT (n + 1)) (.call f nsc args refs) fw = some (v, fw')) : v = B.S.nullV := by
  rw [eval_call_frame] at h
  cases hl : evalList (FS B FT (n + 1)) args fw with
  | none => rw [hl] at h; cases h
  | some r =>
    rw [hl] at h
    change (if r.1.length ≤ nsc then _ else none) = some (v, fw') at h
    split at h
    · exact callBody_null FT (callN B FT n) n f _ refs r.2 fn (v, fw') hf hb h
    · simp at h

/-- falling off the end: whenever the body of ANY function completes normally, the call evaluates to null -/
theorem fall_off_the_end_is_null {B : Base} (FT : FunTable)
    (callf : Nat → List B.S.V → List (AScope × Nat) → FW B → Option (B.S.V × FW B))
    (k f : Nat) (vals : List B.S.V) (refs : List (AScope × Nat)) (fw : FW B) (fn : Fn) (fw2 : FW B)
    (hf : FT[f]? = some fn) (hd : ¬(maxDepth ≤ fw.1.depth ∨ vals.length ≠ fn.numScalars ∨ fn.numArrays < refs.length))
    (hex : exec (mkSem B callf) k fn.body
      (⟨vals, refs.map (fun r => arrIdOf fw.1.larrs r.1 r.2) ++ (allocArrays B (fn.numArrays - refs.length) fw.2).1, fw.1.depth + 1⟩,
        (allocArrays B (fn.numArrays - refs.length) fw.2).2) = some (.normal fw2)) :
    (callBody B FT callf k f vals refs fw).map (·.1) = some B.S.nullV :=
  callBody_fall_off FT callf k f vals refs fw fn fw2 hf hd hex

/-- the VM with frames (`RBig`, `CallUser` as in vm.go): an activation whose code holds no `Return` instruction — only
`ReturnNull`, or none at all — is left with null, whatever the nested activations of its `CallUser` instructions returned
(their `.ret v` outcomes are consumed by `callRet`, which pushes `v` on the stack and goes on) -/
theorem vm_activation_without_Return_is_null {B : Base} (FT : FunTable) (C : Code) (st : RSt B) (v : B.S.V) (s : List B.S.V) (w : B.S.W)
    (hC : ∀ i ∈ C, i ≠ Instr.ret) (h : RBig B FT C st (.ret v s w)) : v = B.S.nullV :=
  rbig_ret_null FT h hC v s w rfl

/-- `shared_return_slot_fails` — ONE return slot for all activations, nulled at call start and read by every `return`
(seeded change C01-q3): the run "start f, start g, g: return 9, f: return" makes f's call evaluate to 9, direct evaluation
gives the uninitialised value -/
theorem shared_return_slot_fails :
    Ret.slotRun (none : Option Nat) none [.enter, .enter, .retVal (some 9), .retBare] = [some 9, some 9] ∧
    Ret.spec (none : Option Nat) [.enter, .enter, .retVal (some 9), .retBare] = [some 9, none] := by
  decide

/-- … and it agrees with direct evaluation on every run in which no bare `return` follows a `return expr` of a call made by
the same activation — which is why programs that never look at such a value (and the pinned tests) do not notice -/
theorem shared_return_slot_agrees_otherwise {V : Type} (null : V) (t : List (Ret.Ev V)) (h : Ret.NoBareAfterValue false t) :
    Ret.slotRun null null t = Ret.spec null t :=
  Ret.slot_agrees null t false null (fun _ => rfl) h

-- non-vacuity:  function g(x) { return x + 7 }   function f(x) { g(x); if (x) return }   BEGIN { print f(3) }  prints an empty line
def retFT : FunTable := [⟨1, 0, .ret (some (.arith .add (.var .loc 0) (.num ⟨true, 7⟩)))⟩,
  ⟨1, 0, .seq (.expr (.call 0 1 [.var .loc 0] [])) (.ifThen (.var .loc 0) (.ret none))⟩]
example : (exec (FS (baseC 0) retFT 12) 10 (.print [.call 1 1 [.num ⟨true, 3⟩] []]) (topFrame (baseC 0), {})).map
    (fun o => match o with | .normal fw => fw.2.out | _ => [1]) = some [10] := by decide
example : (exec (FS (baseC 0) retFT 12) 10 (.print [.call 0 1 [.num ⟨true, 3⟩] []]) (topFrame (baseC 0), {})).map
    (fun o => match o with | .normal fw => fw.2.out | _ => [1]) = some [49, 48, 10] := by decide
example : ∀ fn, retFT[1]? = some fn → fn.body.NoValRet := by
  intro fn h; simp [retFT] at h; subst h; simp [Stmt.NoValRet]
example : ∀ i ∈ cStmt 0 0 (Stmt.seq (.expr (.call 0 1 [.var .loc 0] [])) (.ifThen (.var .loc 0) (.ret none))), i ≠ Instr.ret := by
  decide
example : Ret.NoBareAfterValue false ([.enter, .retBare, .enter, .enter, .fallOff, .retVal 5] : List (Ret.Ev Nat)) := by
  simp [Ret.NoBareAfterValue]

end GoawkModel.C01.Props
