import Proofs.C15
import Proofs.C15Wait
/-!
# C15 — cancellation stops execution promptly and is otherwise invisible

Theorems about the step-counter model of the dispatch-loop poll (`GoawkModel.C15`), for every trace of dispatches (no
bound on its length), every starting counter below the interval and every cancellation time; the interval is the
constant regenerated from interp/newexecute.go, and the placement of the poll is a regenerated fact.
-/
namespace GoawkModel.PropsC15
open GoawkModel.C15 GoawkModel.Generated

/-- the interval the real code uses -/
abbrev N : Nat := Consts.checkContextOps

/-- "about a thousand": re-checked against the source on every run -/
theorem poll_interval_small : 0 < Consts.checkContextOps ∧ Consts.checkContextOps ≤ 2000 := by decide

/-- Where the poll is and who writes the counter, as the source says now: the poll is a statement of the one dispatch loop
of `execute`, before the opcode switch (so every dispatch of every nested `execute` passes it); `checkContext` increments,
compares with `checkContextOps`, resets and only then looks at Done; `ctxOps` is written only there and (to 0) by
ExecuteContext — nested calls share it; `checkCtx` is assigned by Execute and ExecuteContext only. -/
theorem gen_matches :
    C15Poll.executeTopLevel = ["for ip := 0; ip < len(code); ", "return nil"] ∧
    C15Poll.dispatchLoopHead =
      ["op := code[ip]", "ip++", "if p.checkCtx { err := p.checkContext() if err != nil { return err } }"] ∧
    C15Poll.dispatchSwitchTag = "op" ∧ C15Poll.dispatchAfterSwitch = 0 ∧
    C15Poll.checkContextBody =
      ["p.ctxOps++", "if p.ctxOps < checkContextOps { return nil }", "p.ctxOps = 0", "return p.checkContextNow()"] ∧
    C15Poll.checkContextNowBody = ["select { case <-p.ctxDone: return p.ctx.Err() default: return nil }"] ∧
    C15Poll.ctxFieldWrites = [
      ("Execute", "p.interp.checkCtx = false"),
      ("ExecuteContext", "p.interp.checkCtx = ctx != context.Background() && ctx != context.TODO()"),
      ("ExecuteContext", "p.interp.ctx = ctx"),
      ("ExecuteContext", "p.interp.ctxDone = ctx.Done()"),
      ("ExecuteContext", "p.interp.ctxOps = 0"),        -- all four unconditional (no `conditional: ` prefix)
      ("checkContext", "p.ctxOps++"),
      ("checkContext", "p.ctxOps = 0")] ∧
    C15Poll.entryReadsOfContextState = [] ∧
    C15Poll.executeAllReturns = [
      ("phase 1: return 0, ctxErr", "context-error"), ("phase 1: return 0, err", "after-context-check"),
      ("phase 1: return p.exitStatus, nil", "no-error"),
      ("phase 2: return 0, ctxErr", "context-error"), ("phase 2: return 0, err", "after-context-check"),
      ("phase 3: return 0, ctxErr", "context-error"), ("phase 3: return 0, err", "after-context-check"),
      ("phase 3: return p.exitStatus, nil", "no-error")] ∧
    C15Poll.pollCallSites = [
      ("executeAll", "checkContextNow"), ("executeAll", "checkContextNow"), ("executeAll", "checkContextNow"),
      ("checkContext", "checkContextNow"), ("execute", "checkContext")] := by decide

/-- `0 ≤ ctxOps < checkContextOps` at every dispatch, whatever was executed before -/
theorem counter_inv (n c : Nat) (hc : c < N) : counterAfter N n c < N :=
  counterAfter_lt poll_interval_small.1 n c hc

/-- … and it is exactly the number of dispatches modulo the interval (nested calls share it) -/
theorem counter_is_steps_mod (n c : Nat) (hc : c < N) : counterAfter N n c = (c + n) % N :=
  counterAfter_mod n c hc

/-- **Prompt.** If the context is cancelled at dispatch `τ` and the program still has `N` dispatches to go from there,
the run returns the context's error at a dispatch `j` with `τ ≤ j < τ + N` — never before the cancellation, and at most
`N - 1` further dispatches execute after it. -/
theorem prompt (τ : Nat) (ds : List D) (c : Nat) (hc : c < N) (hlen : τ + N ≤ ds.length) :
    ∃ j cc kk, run N (some τ) ds 0 c ⟨0, 0⟩ = .ctxErr j cc kk ∧ τ ≤ j ∧ j < τ + N := by
  have := prompt_aux (N := N) poll_interval_small.1 τ ds 0 c ⟨0, 0⟩ hc (Nat.zero_le _) (by simpa using hlen)
  exact this

/-- a pre-cancelled context (τ = 0) stops the run within the first `N` dispatches -/
theorem prompt_precancelled (ds : List D) (hlen : N ≤ ds.length) :
    ∃ j cc kk, run N (some 0) ds 0 0 ⟨0, 0⟩ = .ctxErr j cc kk ∧ j < N := by
  obtain ⟨j, cc, kk, he, _, h2⟩ := prompt 0 ds 0 poll_interval_small.1 (by simpa using hlen)
  exact ⟨j, cc, kk, he, by simpa using h2⟩

/-- the number of tick() calls made after the cancellation is below the interval -/
theorem ticks_after_cancel_bounded (τ : Nat) (ds : List D) (c : Nat) (hc : c < N) (hlen : τ + N ≤ ds.length) :
    ∃ j cc kk, run N (some τ) ds 0 c ⟨0, 0⟩ = .ctxErr j cc kk ∧ kk.ticksAfter < N := by
  obtain ⟨j, cc, kk, he, h1, h2⟩ := prompt τ ds c hc hlen
  refine ⟨j, cc, kk, he, ?_⟩
  have hb := (ticksAfter_bound τ ds 0 c ⟨0, 0⟩ j cc kk he).1
  have e1 : max 0 τ = τ := by omega
  have e2 : max j τ = j := by omega
  simp only [e1, e2] at hb
  omega

/-- **Invisible.** With a context that is never cancelled the run finishes and makes exactly the tick() calls the loop
without the poll (plain `Execute`) makes. -/
theorem never_cancelled (ds : List D) (c : Nat) :
    run N none ds 0 c ⟨0, 0⟩ = .finished (counterAfter N ds.length c) (runNoPoll ds ⟨0, 0⟩) :=
  never_cancelled_aux N ds 0 c ⟨0, 0⟩

/-- **Error identity.** In every phase of `executeAll` (BEGIN, rules, END) a run that fails with a secondary error while
its context is cancelled returns the context's error: each of the three raw-error returns of the regenerated table is
immediately preceded by the context check, and no return is unguarded. -/
theorem error_identity :
    (∀ n ∈ [1, 2, 3], ∃ how, errorReturnOf n = some how ∧ returnedError how true true = .ctx) ∧
    C15Poll.executeAllReturns.all (fun r => r.2 != "unguarded") = true := by decide

/-- … and without a cancelled context the raw error is what is returned (the check is invisible) -/
theorem error_identity_not_cancelled (how : String) (checkCtx : Bool) :
    returnedError how checkCtx false = .other ∧ returnedError how false true = .other := by
  simp [returnedError]

/-- the entry code does not compare its argument with the stored context state: it reads none of the context fields
(regenerated fact), and all its writes are unconditional (`gen_matches`: no `conditional: ` prefix) -/
theorem entry_reads_no_stored_state : C15Poll.entryReadsOfContextState = [] := by decide

/-- **ExecuteContext's entry code sets all context state from its argument**: nothing of what the previous call left
(a cancelled or expired context, a half-way counter, checkCtx) survives. -/
theorem entry_sets_all (cancellable : Bool) (t : Option Nat) (s₁ s₂ : CtxState) :
    entry (.executeContext cancellable t) s₁ = entry (.executeContext cancellable t) s₂ := rfl

/-- … hence what any call shows does not depend on the calls made before it on the same Interpreter -/
theorem call_independent_of_history (k : Call) (s₁ s₂ : CtxState) (tr : List D) :
    callOutcome N k s₁ tr = callOutcome N k s₂ tr := by
  cases k with
  | execute => simp [callOutcome, entry]
  | executeContext c t => rfl

/-- `ExecuteContext(context.Background())` / `(context.TODO())` is `Execute`, also right after a cancelled call -/
theorem background_eq_execute (t : Option Nat) (s s' : CtxState) (tr : List D) :
    callOutcome N (.executeContext false t) s tr = callOutcome N .execute s' tr := by
  simp [callOutcome, entry]

/-- `ExecuteContext` with a cancellable context that is never cancelled is `Execute`, also right after a cancelled call -/
theorem live_never_cancelled_eq_execute (s s' : CtxState) (tr : List D) :
    callOutcome N (.executeContext true none) s tr = callOutcome N .execute s' tr := by
  simp [callOutcome, entry, never_cancelled_aux, observe]

/-- Non-vacuity: the state a cancelled call leaves behind is not the initial one, and a stale `checkCtx` / `cancelAt`
would change what the next run shows (the C15-m3 scenario) -/
example : run 50 (some 0) (loopTrace 2 8) 0 0 ⟨0, 0⟩ ≠ run 50 none (loopTrace 2 8) 0 0 ⟨0, 0⟩ := by decide

/-- Non-vacuity (with a small interval so that the kernel can evaluate it): the loop shape cancelled in its 2nd iteration
under an interval of 50 is stopped by the poll of dispatch 49 after 5 tick() calls, 3 of them after the cancellation;
the trace is long enough for `prompt`. With the real interval the driver gives 91 / 86 at dispatch 999 for P = 5, which is
what the real interpreter shows in the harness. -/
example : run 50 (some (loopCancelIndex 2 + 1)) (loopTrace 2 8) 0 0 ⟨0, 0⟩ = .ctxErr 49 0 ⟨5, 3⟩ := by decide

example : (loopCancelIndex 2 + 1) + 50 ≤ (loopTrace 2 8).length := by decide

example : run 50 none (loopTrace 2 8) 0 0 ⟨0, 0⟩ = .finished 42 ⟨8, 0⟩ := by decide


/-! ## Waiting for a system() / piped command

The wait state of the model (`GoawkModel.C15Wait`): a dispatch may wait for a command; the clock is in milliseconds. -/

set_option maxRecDepth 100000 in
/-- Which commands there are and what they are given, as the source says now: every command is made by `execShell`, under
a cancellable context with `exec.CommandContext` (killed when the context is done), always with `WaitDelay = 250 ms`; the
commands of `system()` (callBuiltin) and `cmd | getline` (getInputScannerPipe) — and only they — are handed the
interpreter's standard input; the interpreter waits for a command in `waitExitCode` only, called by `system()` and by the
`Close` of the two command streams. -/
theorem gen_matches_cmds :
    C15Cmds.execShellBody = ["executable := p.shellCommand[0]", "args := p.shellCommand[1:]", "args = append(args, code)",
      "var cmd *exec.Cmd",
      "if p.checkCtx { cmd = exec.CommandContext(p.ctx, executable, args...) } else { cmd = exec.Command(executable, args...) }",
      "cmd.WaitDelay = 250 * time.Millisecond", "return cmd"] ∧
    C15Cmds.waitDelayMs = 250 ∧
    C15Cmds.cmdStdinWrites = [("interp.getInputScannerPipe", "cmd.Stdin = p.stdin"), ("interp.callBuiltin", "cmd.Stdin = p.stdin")] ∧
    C15Cmds.commandConstructors = [("interp.execShell", "exec.CommandContext"), ("interp.execShell", "exec.Command")] ∧
    C15Cmds.waitCallSites = [("waitExitCode", "cmd.Wait"), ("newOutCmdStream", "cmd.StdinPipe"),
      ("outCmdStream.Close", "waitExitCode"), ("inCmdStream.Close", "waitExitCode"), ("interp.callBuiltin", "waitExitCode")] := by
  decide

/-- the assumption under which waiting is prompt: the goroutine that copies `Config.Stdin` to a command (it exists when
`Config.Stdin` is not an `*os.File` and the command is one of `system()` / `cmd | getline`) ends within `d` ms of the
command's death — every command of the run -/
def StdinCopiesTerminate (d : Nat) (ss : List Step) : Prop := ∀ w, Step.wait w ∈ ss → w.copy.terminatesWithin d

/-- **One wait, assuming the stdin copy terminates.** A `Wait` for a command under a context that becomes done at `τ`
returns at most `WaitDelay + d` ms after `τ` (or after its start, if later) — however long the command would run, also
when a grandchild survives the kill and keeps the output pipe open. -/
theorem wait_prompt_assuming_stdin_copy_terminates (w : Cmd) (start τ d : Nat) (h : w.copy.terminatesWithin d) :
    ∃ r, waitReturns w start (some τ) = some r ∧ start ≤ r ∧ r ≤ max τ start + (waitDelay + d) :=
  waitReturns_prompt w start τ d h

/-- **Prompt, with waits, assuming the stdin copies terminate.** For every run (dispatches and waits, unbounded), every
cancellation by the script (`τi`) and every time `τ` at which a timer / deadline makes the context done: the run is never
stuck in a wait; when it returns the clock is at most `max clk τ + WaitDelay + d` (the wait that was in progress at `τ`
ended within `WaitDelay + d` ms and no later command was waited for), and fewer than `N` dispatches ran under the done
context — whether it returned the context's error or the program ended first. -/
theorem prompt_with_waits_assuming_stdin_copies_terminate (τ d : Nat) (τi : Option Nat) (ss : List Step)
    (hterm : StdinCopiesTerminate d ss) (clk c : Nat) (hc : c < N) :
    match runW N τi (some τ) ss 0 clk c 0 ⟨0, 0⟩ with
    | .stuck _ => False
    | .ctxErr _ clk' after _ => clk' ≤ max clk τ + (waitDelay + d) ∧ after < N
    | .finished clk' after _ => clk' ≤ max clk τ + (waitDelay + d) ∧ after < N :=
  runW_prompt_aux τ d (max clk τ + (waitDelay + d)) τi (by omega) ss hterm 0 clk c 0 ⟨0, 0⟩ hc (by omega)
    (Nat.zero_le _) (fun _ => rfl)

/-- … and the commands still open when the run returns (closeAll: `cmd | getline` streams, `print | cmd` streams) are
all reaped by then + `WaitDelay + d` -/
theorem close_all_prompt_assuming_stdin_copies_terminate (τ d : Nat) (open_ : List (Cmd × Nat))
    (hterm : ∀ p ∈ open_, p.1.copy.terminatesWithin d ∧ p.2 ≤ τ) (now : Nat) (hnow : now ≤ τ + (waitDelay + d)) :
    ∃ r, closeAllReturns (some τ) open_ now = some r ∧ r ≤ τ + (waitDelay + d) :=
  closeAll_prompt τ d _ (Nat.le_refl _) open_ hterm now hnow

/-- the same statement without the assumption: what the property asks of every run -/
def PromptWithWaitsFull : Prop :=
  ∀ (τ : Nat) (τi : Option Nat) (ss : List Step) (clk c : Nat), c < N →
    ∃ d, match runW N τi (some τ) ss 0 clk c 0 ⟨0, 0⟩ with
      | .stuck _ => False
      | .ctxErr _ clk' _ _ => clk' ≤ max clk τ + (waitDelay + d)
      | .finished clk' _ _ => clk' ≤ max clk τ + (waitDelay + d)

/-- a `Wait` whose stdin copy is blocked never returns — with or without a context (finding G15-1; the harness replays it:
`Config.Stdin` = the read end of an `io.Pipe` nobody writes to, `system("sleep 21")`, 200 ms deadline) -/
theorem blocked_stdin_copy_never_returns (w : Cmd) (start : Nat) (τ : Option Nat) (h : w.copy = .blocked) :
    waitReturns w start τ = none :=
  waitReturns_blocked w start τ h

/-- **The full statement fails** for the code as it is: the G15-1 witness is stuck in its wait -/
theorem prompt_with_waits_full_fails : ¬ PromptWithWaitsFull := by
  intro h
  obtain ⟨d, hd⟩ := h 200 none [.wait ⟨some 21000, .blocked, false⟩] 0 0 poll_interval_small.1
  simp [runW, poll, cancelledW, cancelledBy, waitReturns, deadAt] at hd

/-- without waits and with no timer the model with waits is the model without (`run`), so the theorems above about `run`
are about the same machine -/
theorem waits_extend_run (τi : Option Nat) (ds : List D) (clk c : Nat) :
    (runW N τi none (ds.map Step.d) 0 clk c 0 ⟨0, 0⟩).forget = some (run N τi ds 0 c ⟨0, 0⟩).dropCounter :=
  runW_no_waits N τi ds 0 clk c 0 ⟨0, 0⟩

/-- Non-vacuity: the assumption is satisfiable — an `*os.File` stdin (no copy), a `bytes.Reader` (the copy is over at
once), a reader that yields every 50 ms — and is exactly what fails for the never-written `io.Pipe` -/
example : StdinCopiesTerminate 50 [.d .plain, .wait ⟨some 21000, .none, true⟩, .wait ⟨none, .yieldsAfter 0, false⟩,
    .wait ⟨some 5, .yieldsAfter 50, false⟩] := by
  intro w hw
  simp at hw
  rcases hw with rfl | rfl | rfl <;> simp [StdinCopy.terminatesWithin]

example : ¬ StdinCopiesTerminate 1000000 [.wait ⟨some 21000, .blocked, false⟩] := by
  intro h
  exact h _ (List.mem_cons_self ..)

/-- Non-vacuity (small interval so that the kernel can evaluate): `print "pre"; system("sleep 21"); while (1) tick()` with a
200 ms deadline. With an `*os.File` stdin the wait ends at 200 ms and the poll returns the context's error 6 dispatches
later; with a reader that yields 4 s later the wait ends at 4200 ms; when a grandchild holds the output pipe, at 450 ms. -/
example : runW 8 none (some 200) [.d .plain, .wait ⟨some 21000, .none, false⟩, .d .tick, .d .plain, .d .tick, .d .plain,
    .d .tick, .d .plain, .d .tick, .d .plain, .d .tick] 0 0 0 0 ⟨0, 0⟩ = .ctxErr 7 200 5 ⟨3, 3⟩ := by decide

example : waitReturns ⟨some 21000, .yieldsAfter 4000, false⟩ 0 (some 200) = some 4200 := by decide
example : waitReturns ⟨some 21000, .yieldsAfter 4000, true⟩ 0 (some 200) = some 4450 := by decide
example : waitReturns ⟨some 21000, .none, true⟩ 0 (some 200) = some 450 := by decide
example : waitReturns ⟨some 30, .yieldsAfter 0, false⟩ 100 (some 200) = some 130 := by decide
example : runW 8 none (some 200) [.d .plain, .wait ⟨some 21000, .blocked, false⟩, .d .tick] 0 0 0 0 ⟨0, 0⟩ = .stuck 1 := by decide
/-- a command is not started under a context that is already done: the blocked reader does no harm then -/
example : runW 8 none (some 0) [.d .plain, .wait ⟨some 21000, .blocked, false⟩, .d .tick] 0 0 0 0 ⟨0, 0⟩ = .finished 0 3 ⟨1, 1⟩ := by decide

end GoawkModel.PropsC15
