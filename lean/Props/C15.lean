import Proofs.C15
/-!
# C15 — cancellation stops execution promptly and is otherwise invisible

Theorems about the step-counter model of the dispatch-loop poll (`GoawkModel.C15`), for every trace of dispatches (no
bound on its length), every starting counter below the interval and every cancellation time; the interval is the
constant regenerated from interp/newexecute.go, and the placement of the poll is a regenerated fact.
-/
namespace GoawkModel.PropsC15
open GoawkModel.C15 GoawkModel.Generated

/-- the interval the real code uses -/
abbrev N : Nat := Consts.checkContextOps

/-- "about a thousand": re-checked against the source on every run -/
theorem poll_interval_small : 0 < Consts.checkContextOps ∧ Consts.checkContextOps ≤ 2000 := by decide

/-- Where the poll is and who writes the counter, as the source says now: the poll is a statement of the one dispatch loop
of `execute`, before the opcode switch (so every dispatch of every nested `execute` passes it); `checkContext` increments,
compares with `checkContextOps`, resets and only then looks at Done; `ctxOps` is written only there and (to 0) by
ExecuteContext — nested calls share it; `checkCtx` is assigned by Execute and ExecuteContext only. -/
theorem gen_matches :
    C15Poll.executeTopLevel = ["for ip := 0; ip < len(code); ", "return nil"] ∧
    C15Poll.dispatchLoopHead =
      ["op := code[ip]", "ip++", "if p.checkCtx { err := p.checkContext() if err != nil { return err } }"] ∧
    C15Poll.dispatchSwitchTag = "op" ∧ C15Poll.dispatchAfterSwitch = 0 ∧
    C15Poll.checkContextBody =
      ["p.ctxOps++", "if p.ctxOps < checkContextOps { return nil }", "p.ctxOps = 0", "return p.checkContextNow()"] ∧
    C15Poll.checkContextNowBody = ["select { case <-p.ctxDone: return p.ctx.Err() default: return nil }"] ∧
    C15Poll.ctxFieldWrites = [
      ("Execute", "p.interp.checkCtx = false"),
      ("ExecuteContext", "p.interp.checkCtx = ctx != context.Background() && ctx != context.TODO()"),
      ("ExecuteContext", "p.interp.ctx = ctx"),
      ("ExecuteContext", "p.interp.ctxDone = ctx.Done()"),
      ("ExecuteContext", "p.interp.ctxOps = 0"),        -- all four unconditional (no `conditional: ` prefix)
      ("checkContext", "p.ctxOps++"),
      ("checkContext", "p.ctxOps = 0")] ∧
    C15Poll.entryReadsOfContextState = [] ∧
    C15Poll.executeAllReturns = [
      ("phase 1: return 0, ctxErr", "context-error"), ("phase 1: return 0, err", "after-context-check"),
      ("phase 1: return p.exitStatus, nil", "no-error"),
      ("phase 2: return 0, ctxErr", "context-error"), ("phase 2: return 0, err", "after-context-check"),
      ("phase 3: return 0, ctxErr", "context-error"), ("phase 3: return 0, err", "after-context-check"),
      ("phase 3: return p.exitStatus, nil", "no-error")] ∧
    C15Poll.pollCallSites = [
      ("executeAll", "checkContextNow"), ("executeAll", "checkContextNow"), ("executeAll", "checkContextNow"),
      ("checkContext", "checkContextNow"), ("execute", "checkContext")] := by decide

/-- `0 ≤ ctxOps < checkContextOps` at every dispatch, whatever was executed before -/
theorem counter_inv (n c : Nat) (hc : c < N) : counterAfter N n c < N :=
  counterAfter_lt poll_interval_small.1 n c hc

/-- … and it is exactly the number of dispatches modulo the interval (nested calls share it) -/
theorem counter_is_steps_mod (n c : Nat) (hc : c < N) : counterAfter N n c = (c + n) % N :=
  counterAfter_mod n c hc

/-- **Prompt.** If the context is cancelled at dispatch `τ` and the program still has `N` dispatches to go from there,
the run returns the context's error at a dispatch `j` with `τ ≤ j < τ + N` — never before the cancellation, and at most
`N - 1` further dispatches execute after it. -/
theorem prompt (τ : Nat) (ds : List D) (c : Nat) (hc : c < N) (hlen : τ + N ≤ ds.length) :
    ∃ j cc kk, run N (some τ) ds 0 c ⟨0, 0⟩ = .ctxErr j cc kk ∧ τ ≤ j ∧ j < τ + N := by
  have := prompt_aux (N := N) poll_interval_small.1 τ ds 0 c ⟨0, 0⟩ hc (Nat.zero_le _) (by simpa using hlen)
  exact this

/-- a pre-cancelled context (τ = 0) stops the run within the first `N` dispatches -/
theorem prompt_precancelled (ds : List D) (hlen : N ≤ ds.length) :
    ∃ j cc kk, run N (some 0) ds 0 0 ⟨0, 0⟩ = .ctxErr j cc kk ∧ j < N := by
  obtain ⟨j, cc, kk, he, _, h2⟩ := prompt 0 ds 0 poll_interval_small.1 (by simpa using hlen)
  exact ⟨j, cc, kk, he, by simpa using h2⟩

/-- the number of tick() calls made after the cancellation is below the interval -/
theorem ticks_after_cancel_bounded (τ : Nat) (ds : List D) (c : Nat) (hc : c < N) (hlen : τ + N ≤ ds.length) :
    ∃ j cc kk, run N (some τ) ds 0 c ⟨0, 0⟩ = .ctxErr j cc kk ∧ kk.ticksAfter < N := by
  obtain ⟨j, cc, kk, he, h1, h2⟩ := prompt τ ds c hc hlen
  refine ⟨j, cc, kk, he, ?_⟩
  have hb := (ticksAfter_bound τ ds 0 c ⟨0, 0⟩ j cc kk he).1
  have e1 : max 0 τ = τ := by omega
  have e2 : max j τ = j := by omega
  simp only [e1, e2] at hb
  omega

/-- **Invisible.** With a context that is never cancelled the run finishes and makes exactly the tick() calls the loop
without the poll (plain `Execute`) makes. -/
theorem never_cancelled (ds : List D) (c : Nat) :
    run N none ds 0 c ⟨0, 0⟩ = .finished (counterAfter N ds.length c) (runNoPoll ds ⟨0, 0⟩) :=
  never_cancelled_aux N ds 0 c ⟨0, 0⟩

/-- **Error identity.** In every phase of `executeAll` (BEGIN, rules, END) a run that fails with a secondary error while
its context is cancelled returns the context's error: each of the three raw-error returns of the regenerated table is
immediately preceded by the context check, and no return is unguarded. -/
theorem error_identity :
    (∀ n ∈ [1, 2, 3], ∃ how, errorReturnOf n = some how ∧ returnedError how true true = .ctx) ∧
    C15Poll.executeAllReturns.all (fun r => r.2 != "unguarded") = true := by decide

/-- … and without a cancelled context the raw error is what is returned (the check is invisible) -/
theorem error_identity_not_cancelled (how : String) (checkCtx : Bool) :
    returnedError how checkCtx false = .other ∧ returnedError how false true = .other := by
  simp [returnedError]

/-- the entry code does not compare its argument with the stored context state: it reads none of the context fields
(regenerated fact), and all its writes are unconditional (`gen_matches`: no `conditional: ` prefix) -/
theorem entry_reads_no_stored_state : C15Poll.entryReadsOfContextState = [] := by decide

/-- **ExecuteContext's entry code sets all context state from its argument**: nothing of what the previous call left
(a cancelled or expired context, a half-way counter, checkCtx) survives. -/
theorem entry_sets_all (cancellable : Bool) (t : Option Nat) (s₁ s₂ : CtxState) :
    entry (.executeContext cancellable t) s₁ = entry (.executeContext cancellable t) s₂ := rfl

/-- … hence what any call shows does not depend on the calls made before it on the same Interpreter -/
theorem call_independent_of_history (k : Call) (s₁ s₂ : CtxState) (tr : List D) :
    callOutcome N k s₁ tr = callOutcome N k s₂ tr := by
  cases k with
  | execute => simp [callOutcome, entry]
  | executeContext c t => rfl

/-- `ExecuteContext(context.Background())` / `(context.TODO())` is `Execute`, also right after a cancelled call -/
theorem background_eq_execute (t : Option Nat) (s s' : CtxState) (tr : List D) :
    callOutcome N (.executeContext false t) s tr = callOutcome N .execute s' tr := by
  simp [callOutcome, entry]

/-- `ExecuteContext` with a cancellable context that is never cancelled is `Execute`, also right after a cancelled call -/
theorem live_never_cancelled_eq_execute (s s' : CtxState) (tr : List D) :
    callOutcome N (.executeContext true none) s tr = callOutcome N .execute s' tr := by
  simp [callOutcome, entry, never_cancelled_aux, observe]

/-- Non-vacuity: the state a cancelled call leaves behind is not the initial one, and a stale `checkCtx` / `cancelAt`
would change what the next run shows (the C15-m3 scenario) -/
example : run 50 (some 0) (loopTrace 2 8) 0 0 ⟨0, 0⟩ ≠ run 50 none (loopTrace 2 8) 0 0 ⟨0, 0⟩ := by decide

/-- Non-vacuity (with a small interval so that the kernel can evaluate it): the loop shape cancelled in its 2nd iteration
under an interval of 50 is stopped by the poll of dispatch 49 after 5 tick() calls, 3 of them after the cancellation;
the trace is long enough for `prompt`. With the real interval the driver gives 91 / 86 at dispatch 999 for P = 5, which is
what the real interpreter shows in the harness. -/
example : run 50 (some (loopCancelIndex 2 + 1)) (loopTrace 2 8) 0 0 ⟨0, 0⟩ = .ctxErr 49 0 ⟨5, 3⟩ := by decide

example : (loopCancelIndex 2 + 1) + 50 ≤ (loopTrace 2 8).length := by decide

example : run 50 none (loopTrace 2 8) 0 0 ⟨0, 0⟩ = .finished 42 ⟨8, 0⟩ := by decide

end GoawkModel.PropsC15
