/-! Property theorems for C15 (see /verif/DESIGN.md). Only property theorems and non-vacuity examples live here. -/
