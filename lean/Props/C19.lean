/-! Property theorems for C19 (see /verif/DESIGN.md). Only property theorems and non-vacuity examples live here. -/
