import Props.C16
import Proofs.C19Order
import Proofs.C19Passes
import GoawkModel.Generated.C19Maps
import GoawkModel.Generated.C19Writes
import GoawkModel.Generated.C19PkgVars
/-! Property theorems for C19 — parsing is deterministic; a parsed Program is immutable and shareable.
Determinism is a theorem about the resolver model of C16 with every Go map iteration made an explicit parameter.
Immutability is carried by two regenerated source facts (no statement of package interp writes through the shared Program;
every map iteration in resolver/compiler/parser is of an order-insensitive class); data races and heap aliasing are runtime
behaviour and are supported by search only (harness/c19). -/
namespace GoawkModel.C16

/-- Parsing is deterministic: whatever order Go iterates its maps in, the resolver returns the same result — the same
type tables, or the same error raised at the same place. -/
theorem parse_deterministic (p : Program) (i₁ i₂ : List Name → List Name) (h₁ : IsIter i₁) (h₂ : IsIter i₂) :
    parse i₁ p = parse i₂ p := by
  simp only [parse]
  rw [goOrder_iter h₁ h₂]

/-- The function walk order itself does not depend on map iteration. -/
theorem order_deterministic (p : Program) (i₁ i₂ : List Name → List Name) (h₁ : IsIter i₁) (h₂ : IsIter i₂) :
    goOrder i₁ p = goOrder i₂ p := goOrder_iter h₁ h₂ p

/-- Go's walk order visits every function, so the C16 theorems apply to what `ParseProgram` does. -/
theorem parse_covers (p : Program) (iter : List Name → List Name) : Covers (goOrder iter p) p := goOrder_covers iter p

/-- What `ParseProgram` does is exact whatever the map iteration order: accepted iff a consistent typing exists. -/
theorem parse_exact (p : Program) (iter : List Name → List Name) (wf : WF p) (hb : p.builtins ≠ []) :
    (∃ s, parse iter p = .ok s) ↔ Consistent p :=
  resolve_exact p (goOrder iter p) wf hb (goOrder_covers iter p)

/-- Determinism pass by pass: even if every pass of the resolver recomputed its function order under a map iteration order of
its own, the result would be the one `ParseProgram` gives — every pass walks the same (sorted) order. -/
theorem parse_passes_deterministic (p : Program) (i₀ : List Name → List Name) (is : Nat → List Name → List Name)
    (h₀ : IsIter i₀) (hs : ∀ k, IsIter (is k)) :
    resolveWith p (goOrder i₀ p) (fun k => goOrder (is k) p) = parse id p := by
  have hid : IsIter (id : List Name → List Name) := fun l => List.Perm.refl l
  have h : (fun k => goOrder (is k) p) = fun _ => goOrder id p := funext fun k => goOrder_iter (hs k) hid p
  rw [h, goOrder_iter h₀ hid p]
  exact resolveWith_const p (goOrder id p)

/-- …and this is not a consequence of "every pass visits every function": the order walked by the extra passes is observable.
For a program whose type clash surfaces only in the second pass, walking a permutation of the order in the extra passes reports
a different error at a different place (the seeded change C19-q1: extra passes that revisit functions in map order). -/
theorem later_pass_order_observable :
    ∃ (p : Program) (o o' : List Name), o'.Perm o ∧ resolveWith p o (fun _ => o') ≠ resolveWith p o (fun _ => o) :=
  later_pass_order_matters

/-! ### regenerated source facts -/

/-- every `range` over a map in internal/resolver, internal/compiler, parser: file, function, expression, body class -/
def expectedMapRanges : List (String × String × String × String) := [
  ("internal/resolver/resolve.go", "ResolvedProgram.IterVars", "r.resolver.varInfo[funcName]", "callback"),
  ("internal/resolver/resolve.go", "ResolvedProgram.IterFuncs", "r.resolver.funcInfo", "callback"),
  ("internal/resolver/resolve.go", "Resolve", "config.Funcs", "collect-then-sort"),
  ("internal/resolver/resolve.go", "Resolve", "funcInfo", "per-key"),
  ("internal/resolver/resolve.go", "Resolve", "r.varInfo", "per-key"),
  ("internal/resolver/resolve.go", "Resolve", "r.varInfo", "per-key"),
  ("internal/resolver/resolve.go", "Resolve", "infos", "per-key"),
  ("internal/resolver/resolve.go", "Resolve", "r.varInfo", "per-key"),
  ("internal/resolver/resolve.go", "Resolve", "infos", "collect-then-sort"),
  ("internal/resolver/resolve.go", "printVarTypes", "varInfo", "collect-then-sort"),
  ("internal/resolver/resolve.go", "printVarTypes", "varInfo[funcName]", "collect-then-sort"),
  ("internal/resolver/toposort.go", "sortedKeys", "m", "collect-then-sort"),
  ("parser/parser.go", "parser.checkMultiExprs", "p.multiExprs", "min-reduce-lex")]

/-- the closures handed to IterVars / IterFuncs (they see the entries in map order) -/
def expectedIterCallbacks : List (String × String × String × String) := [
  ("internal/compiler/compiler.go", "Compile", "IterVars", "per-key"),
  ("internal/compiler/compiler.go", "Compile", "IterFuncs", "per-key"),
  ("interp/interp.go", "newInterp", "IterVars", "per-key")]

theorem gen_matches_mapRanges : Generated.C19Maps.mapRanges = expectedMapRanges := by decide
theorem gen_matches_iterCallbacks : Generated.C19Maps.iterCallbacks = expectedIterCallbacks := by decide

/-- no map iteration of the front end has an order-sensitive body -/
theorem no_order_sensitive_range :
    ∀ e ∈ Generated.C19Maps.mapRanges ++ Generated.C19Maps.iterCallbacks, e.2.2.2 ≠ "order-sensitive" := by decide

/-- no statement of package interp writes through the shared Program -/
theorem gen_matches_programWrites : Generated.C19Writes.programWrites = [] := by decide

/-- no method of the Program types (everything an interpreter can call on the shared Program: IterVars, IterFuncs, LookupFunc,
String, Disassemble, …) assigns into the Program, directly or through a local alias: nothing is built lazily on first use, so the
first executions of a fresh Program read exactly what later ones read -/
theorem gen_matches_programMethodWrites : Generated.C19Writes.programMethodWrites = [] := by decide

/-- package-level slices/maps of package interp (state shared by all interpreters) and how they are initialised -/
def expectedPackageVars : List (String × String × String) := [("defaultShellCommand", "slice", "exact-cap")]

/-- every statement that may write into the backing store of such a variable -/
def expectedSharedWrites : List (String × String × String × String × String) := [
  ("interp/io.go", "execShell", "append", "args", "defaultShellCommand")]

theorem gen_matches_packageVars : Generated.C19PkgVars.packageVars = expectedPackageVars := by decide
theorem gen_matches_sharedWrites : Generated.C19PkgVars.sharedWrites = expectedSharedWrites := by decide

/-- the only writes through shared package state are appends to slices whose capacity equals their length, which copy:
no interpreter ever stores into memory another interpreter can see -/
theorem shared_writes_copy :
    ∀ w ∈ Generated.C19PkgVars.sharedWrites, w.2.2.1 = "append" ∧
      (w.2.2.2.2, "slice", "exact-cap") ∈ Generated.C19PkgVars.packageVars := by decide

/-! ### non-vacuity: three functions with independent type errors (the F22 witness shape); reversing or rotating every map
iteration reports the same error at the same place -/

def exF22 : Program :=
  { funcs := [⟨7, [4], [.use 4 .array, .use 4 .scalar]⟩, ⟨5, [4], [.use 4 .array, .use 4 .scalar]⟩,
              ⟨6, [4], [.use 4 .array, .use 4 .scalar]⟩],
    main := [.call 6 0, .call 5 0], specials := [], builtins := [1, 2, 3] }

example : IsIter List.reverse := fun l => List.reverse_perm l
example : parse id exF22 = .error (5, 1, .useAs .array 4 .scalar) := rfl
example : parse List.reverse exF22 = .error (5, 1, .useAs .array 4 .scalar) := rfl
example : goOrder id exF22 = [5, 6, 0, 7] := by decide

/-! non-vacuity for the pass-by-pass statement: `exLate` (two carrier chains, Proofs/C19Passes.lean) reaches its verdict in the
second pass, and reversing every map iteration reports the same error at the same place -/
example : passesRun exLate (goOrder id exLate) = 2 := exLate_passes
example : parse id exLate = .error (6, 4, .passAs .scalar 13 .array) := rfl
example : parse List.reverse exLate = .error (6, 4, .passAs .scalar 13 .array) := rfl

end GoawkModel.C16
