import Proofs.C12
import Proofs.C12Entry
import GoawkModel.C12Sites
/-!
# C12 — NoExec, NoFileWrites and NoFileReads confine every program

Theorems about the I/O dispatch model `GoawkModel.C12` (one `step` per I/O operation of a program, the outside world as an
effect log). All are for every flag setting, every start state satisfying the invariant (in particular the initial state),
and every list of operations — no bound on length, names are arbitrary byte strings, OS answers are arbitrary.
The tie to /repo is (a) `gen_matches` / `sites_guarded` over the regenerated call-site inventory and (b) the differential
run of the real interpreter against `trace` in harness/c12.
-/
namespace GoawkModel.C12.Props
open GoawkModel GoawkModel.C12

/-- NoExec: no process is started, and no stream backed by a process is ever written, read or closed. -/
theorem noexec_confines (f : Flags) (h : f.noExec = true) (s : St) (hs : Inv f s) (ops : List IoOp) :
    ∀ e ∈ effects f s ops, e.process = false :=
  fun e he => (effects_ok f s hs ops e he).1 h

/-- NoFileWrites: no file is opened for writing (create / truncate / append) and no file stream is written or flushed. -/
theorem nowrite_confines (f : Flags) (h : f.noWrites = true) (s : St) (hs : Inv f s) (ops : List IoOp) :
    ∀ e ∈ effects f s ops, e.fileWrite = false :=
  fun e he => (effects_ok f s hs ops e he).2.1 h

/-- NoFileReads: no file is opened for reading — by `getline <`, as an operand of the pattern-action loop, or as an operand
reached by un-redirected getline — and no file stream is read. -/
theorem noread_confines (f : Flags) (h : f.noReads = true) (s : St) (hs : Inv f s) (ops : List IoOp) :
    ∀ e ∈ effects f s ops, e.fileRead = false :=
  fun e he => (effects_ok f s hs ops e he).2.2.1 h

/-- the three together for a run from the initial state (empty stream table) -/
theorem confined_from_start (f : Flags) (existing args : List Bytes) (recs : Nat) (ops : List IoOp) :
    ∀ e ∈ effects f (St.init existing args recs) ops,
      (f.noExec = true → e.process = false) ∧ (f.noWrites = true → e.fileWrite = false) ∧ (f.noReads = true → e.fileRead = false) :=
  fun e he => let g := effects_ok f _ (inv_init f existing args recs) ops e he; ⟨g.1, g.2.1, g.2.2.1⟩

/-- standard input stays available under NoFileReads: by the name "-" … -/
theorem stdin_dash_available (f : Flags) (s : St) (h : find dash s.streams = none) :
    (step f s (.getlineFile dash)).1 = [.useStdin] := by
  simp [step, inFile, h]

/-- … and as the default input when there are no operands. -/
theorem stdin_default_available (f : Flags) (s : St) (h1 : s.cur = 0) (h2 : s.args = []) (h3 : s.hadFiles = false) :
    (step f s .getline).1 = [.useStdin] := by
  by_cases hz : s.stdinRecs = 0 <;> simp [step, nextLine, nextOperand, h1, h2, h3, hz]

/-- writing to "-" is standard output under every flag setting -/
theorem stdout_dash_available (f : Flags) (s : St) (ok : Bool) (h : find dash s.streams = none) :
    (step f s (.printGt dash ok)).1 = [.useStdout] := by
  simp [step, outFile, h]

/-- every open goes through the configured open function (`p.openFile`) -/
theorem all_opens_via_hook (f : Flags) (s : St) (hs : Inv f s) (ops : List IoOp) :
    ∀ e ∈ effects f s ops, ∀ n m via ok, e = .open n m via ok → via = .configured := by
  intro e he n m via ok heq
  have := (effects_ok f s hs ops e he).2.2.2
  subst heq
  simpa [Effect.viaHook] using this

/-- A denied redirected form or system(): a `>`/`>>`/`|`/`getline <`/`| getline` on a name that is not already an open stream
(and is not "-"), or any system(), under the flag that forbids it, yields exactly one effect, the error, and the run ends
there whatever follows. -/
theorem attempt_ends_run (f : Flags) (s : St) (op : IoOp) (rest : List IoOp) (e : Err)
    (h : denied f s op = some e) : trace f s (op :: rest) = [[.error e]] :=
  denied_trace f s op rest e h

/-- An operand denied by NoFileReads ends the run when the pattern-action loop reaches it … -/
theorem operand_attempt_is_error (f : Flags) (h : f.noReads = true) (s : St) (hc : s.cur = 0)
    (ha : firstRegular s.args = true) (rest : List IoOp) : trace f s (.mainLoop :: rest) = [[.error .noFileReads]] := by
  simp [trace, mainLoop_operand_denied f h s hc ha, Effect.isError]

/-- … and when an un-redirected getline reaches it (the repaired G12-1: `errNoFileReads` is propagated). -/
theorem getline_operand_attempt_is_error (f : Flags) (h : f.noReads = true) (s : St) (hc : s.cur = 0)
    (ha : firstRegular s.args = true) (rest : List IoOp) : trace f s (.getline :: rest) = [[.error .noFileReads]] := by
  simp [trace, getline_operand_denied f h s hc ha, Effect.isError]

/-- The clause at full strength: every attempt — redirected form, system(), operand reached by the pattern-action loop or by
un-redirected getline — is an error. -/
def AttemptIsError : Prop :=
  ∀ (f : Flags) (s : St) (op : IoOp),
    ((denied f s op).isSome ∨ ((op = .getline ∨ op = .mainLoop) ∧ f.noReads = true ∧ s.cur = 0 ∧ firstRegular s.args = true)) →
    (step f s op).1.any Effect.isError = true

theorem attempt_is_error : AttemptIsError := by
  intro f s op h
  rcases h with h | ⟨hop, hr, hc, ha⟩
  · obtain ⟨e, he⟩ := Option.isSome_iff_exists.mp h
    simp [denied_step f s op e he, Effect.isError]
  · rcases hop with rfl | rfl
    · simp [getline_operand_denied f hr s hc ha, Effect.isError]
    · simp [mainLoop_operand_denied f hr s hc ha, Effect.isError]

def g121Flags : Flags := { noExec := false, noWrites := false, noReads := true, hook := true }
def g121State : St := St.init [[105]] [[105]] 2      -- one operand "i", which exists (the former G12-1 witness)

/-! ### a reused Interpreter: each Execute is judged by its own configuration -/

/-- The effects of run k depend only on run k's configuration: whatever `Execute` calls came before or come after on the same
Interpreter (other flags, another or no OpenFile), run k's trace is the trace of a fresh run under its own config. -/
theorem session_run_independent (pre pre' post post' : List RunCfg) (r : RunCfg) :
    (session (pre ++ r :: post))[pre.length]? = some (execute r) ∧
    (session (pre ++ r :: post))[pre.length]? = (session (pre' ++ r :: post'))[pre'.length]? := by
  simp [session]

/-- … hence every run of a session is confined by ITS OWN flags and opens files only through ITS OWN open function. -/
theorem session_confined (runs : List RunCfg) (r : RunCfg) (g : List Effect) (e : Effect)
    (_hr : execute r ∈ session runs) (hg : g ∈ execute r) (he : e ∈ g) :
    (r.flags.noExec = true → e.process = false) ∧ (r.flags.noWrites = true → e.fileWrite = false) ∧
    (r.flags.noReads = true → e.fileRead = false) ∧ e.viaHook = true := by
  have := trace_ok r.flags r.ops _ (inv_init r.flags r.existing r.args r.stdinRecs) g hg e he
  exact ⟨this.1, this.2.1, this.2.2.1, this.2.2.2⟩

/-! ### standard input under the name "-" is not a file; file decisions depend on (flags, answer of the open function) only -/

/-- `getline < "-"`: effects and next state are the same under every flag setting (NoFileReads and OpenFile play no part) … -/
theorem getline_dash_ignores_flags (f f' : Flags) (s : St) :
    step f s (.getlineFile dash) = step f' s (.getlineFile dash) := by
  simp only [step, inFile]
  cases find dash s.streams <;> simp

/-- … and it never opens anything and is never the NoFileReads error. -/
theorem getline_dash_no_open (f : Flags) (s : St) :
    ∀ e ∈ (step f s (.getlineFile dash)).1, (∀ n m via ok, e ≠ .open n m via ok) ∧ e ≠ .error .noFileReads := by
  simp only [step, inFile]
  cases h : find dash s.streams with
  | none => simp
  | some k => cases hk : k.isInput <;> simp [hk]

/-- An operand "-" is served from standard input first, whatever the flags -/
theorem dash_operand_reads_stdin (f : Flags) (s : St) (rest : List Bytes) :
    ∃ es, (nextOperand f s (dash :: rest)).1 = .useStdin :: es := by
  by_cases hz : s.stdinRecs = 0 <;> simp [nextOperand, dash, hz]

theorem dash_operand_ignores_flags (f f' : Flags) (s : St) (rest : List Bytes) (h : s.stdinRecs ≠ 0) :
    nextOperand f s (dash :: rest) = nextOperand f' s (dash :: rest) ∧
    (nextOperand f s (dash :: rest)).1 = [.useStdin] ∧ (nextOperand f s (dash :: rest)).2.2 = .record := by
  simp [nextOperand, dash, h]

theorem default_input_ignores_flags (f f' : Flags) (s : St) : nextOperand f s [] = nextOperand f' s [] := by
  simp [nextOperand]

/-- The pattern-action loop (and un-redirected getline) over operands that name standard input only — "-" at any position, any
number of times, "" entries, or no operand at all — behaves the same under every flag setting and with or without OpenFile, uses
standard input only and does not end in an error. -/
theorem stdin_operands_ignore_flags (f f' : Flags) (s : St) (h : onlyStdin s.args = true) :
    step f s .mainLoop = step f' s .mainLoop ∧ step f s .getline = step f' s .getline ∧
    (∀ e ∈ (step f s .mainLoop).1, e = .useStdin) ∧ (∀ e ∈ (step f s .getline).1, e = .useStdin) := by
  obtain ⟨hm, hme⟩ := mainLoop_onlyStdin f f' (mainFuel s) s h
  obtain ⟨heq, _, hne, hes⟩ := nextLine_onlyStdin f f' s h
  refine ⟨hm, ?_, hme, ?_⟩
  · simp only [step, ← heq]
  · simp only [step]
    rcases hnl : nextLine f s with ⟨es, s', r⟩
    rw [hnl] at hne hes
    cases r with
    | record => simpa using hes
    | eof => simpa using hes
    | err e => exact absurd rfl (hne e)

/-- Every decision about a file is a function of the flags and of what the open function answers, nothing else: for a name that
is not an open stream, the effects of `getline < n` are determined by `readDecision f n` and the answer (here: whether the name
is in the table of files the open function can deliver) … -/
theorem read_open_hermetic (f : Flags) (s : St) (n : Bytes) (h : find n s.streams = none) :
    (step f s (.getlineFile n)).1 =
      match readDecision f n with
      | .stdin => [.useStdin]
      | .refuse e => [.error e]
      | .stdout | .stderr => []
      | .viaOpenFile m =>
        if s.existing.contains n then [.open n m .configured true, .useStream n .inFile] else [.open n m .configured false, .soft] := by
  simp only [step, inFile, h, readDecision]
  by_cases h1 : n = dash
  · simp [h1]
  · by_cases h2 : f.noReads = true
    · simp [h1, h2]
    · by_cases h3 : n ∈ s.existing <;> simp [h1, h2, h3]

/-- … of `print > n` / `print >> n` by `writeDecision f n mode` and the answer `ok` … -/
theorem write_open_hermetic (f : Flags) (s : St) (n : Bytes) (ok : Bool) (h : find n s.streams = none) :
    (step f s (.printGt n ok)).1 =
      match writeDecision f n .wrTrunc with
      | .stdout => [.useStdout]
      | .stderr => [.useStderr]
      | .stdin => []
      | .refuse e => [.error e]
      | .viaOpenFile m =>
        if ok then [.open n m .configured true, .useStream n .outFile] else [.open n m .configured false, .error .redirect] := by
  simp only [step, outFile, h, writeDecision]
  by_cases h1 : n = dash
  · simp [h1]
  · by_cases h2 : f.noWrites = true
    · simp [h1, h2]
    · by_cases h3 : n = devStderr
      · subst h3; simp [h2, show devStderr ≠ dash by decide]
      · by_cases h4 : n = devStdout
        · subst h4; simp [h2, show devStdout ≠ dash by decide, show devStdout ≠ devStderr by decide]
        · cases ok <;> simp [h1, h2, h3, h4]

/-- … and two states that give the same answer for `n` give the same effects: nothing else of the state (no other file, no host
file system) is consulted. -/
theorem open_effects_depend_on_answer_only (f : Flags) (s s' : St) (n : Bytes) (ok : Bool)
    (h : find n s.streams = none) (h' : find n s'.streams = none) (ha : s.existing.contains n = s'.existing.contains n) :
    (step f s (.getlineFile n)).1 = (step f s' (.getlineFile n)).1 ∧
    (step f s (.printGt n ok)).1 = (step f s' (.printGt n ok)).1 ∧
    (step f s (.printApp n ok)).1 = (step f s' (.printApp n ok)).1 := by
  refine ⟨?_, ?_, ?_⟩
  · rw [read_open_hermetic f s n h, read_open_hermetic f s' n h', ha]
  · simp only [step, outFile, h, h']
    repeat (first | split | rfl)
  · simp only [step, outFile, h, h']
    repeat (first | split | rfl)

/-- … and of a file operand of the pattern-action loop by `NoFileReads` and the answer. -/
theorem operand_open_hermetic (f : Flags) (s : St) (a : Bytes) (rest : List Bytes) (h0 : a ≠ []) (h1 : a ≠ dash) :
    ((nextOperand f s (a :: rest)).1, (nextOperand f s (a :: rest)).2.2) =
      if f.noReads then ([], .err .noFileReads)
      else if s.existing.contains a then ([.open a .rd .configured true], .record)
      else ([.open a .rd .configured false], .err .openFailed) := by
  by_cases h2 : f.noReads = true
  · simp [nextOperand, h0, h1, h2]
  · by_cases h3 : a ∈ s.existing <;> simp [nextOperand, h0, h1, h2, h3]

/-! ### the regenerated inventory of OS-reaching call sites of package interp -/

theorem gen_matches : Generated.C12IoSites.sites = expectedSites := by decide

theorem gen_imports_match : Generated.C12IoSites.imports = expectedImports := by decide

theorem gen_openfile_assignments_match : Generated.C12IoSites.openFileAssignments = expectedOpenFileAssignments := by decide

/-- evaluated on the generated table itself: every process start / file open in the package is guarded (or sits in one of
the three helpers all of whose call sites are guarded), and nothing else reaches the OS -/
theorem sites_guarded : Generated.C12IoSites.sites.all siteGuarded = true := by decide

/-! ### non-vacuity -/

def exFlags : Flags := { noExec := true, noWrites := true, noReads := true, hook := false }
def exOps : List IoOp := [.getlineFile dash, .printGt dash true, .close [120], .getline, .system [120] true, .printGt [111] true]

example : Inv exFlags (St.init [] [] 1) := inv_init _ _ _ _
example : effects exFlags (St.init [] [] 1) exOps = [.useStdin, .useStdout, .soft, .useStdin, .error .noExecSystem] := by decide
example : denied exFlags (St.init [] [] 1) (.printGt [111] true) = some .noFileWrites := by decide
example : effects { noExec := true, noWrites := false, noReads := true, hook := false } (St.init [] [] 1) [.printGt [111] true, .printPipe [111] true, .close [111]] =
    [.open [111] .wrTrunc .configured true, .useStream [111] .outFile, .useStream [111] .outFile, .closeStream [111] .outFile] := by decide
example : (session [⟨exFlags, [], [], 1, exOps⟩, ⟨g121Flags, [[105]], [[105]], 2, [.getline]⟩])[1]? = some [[.error .noFileReads]] := by decide
example : firstRegular g121State.args = true ∧ g121State.cur = 0 := by decide
example : (step g121Flags g121State .mainLoop).1 = [.error .noFileReads] := by decide
example : (step g121Flags g121State .getline).1 = [.error .noFileReads] := by decide
example : (Generated.C12IoSites.sites.length, Generated.C12IoSites.imports.length) = (14, 26) := by decide

/-! non-vacuity of the stdin / hermetic-open theorems -/
def exReadsOnly : Flags := { noExec := false, noWrites := false, noReads := true, hook := true }
def exNoFlags : Flags := { noExec := false, noWrites := false, noReads := false, hook := false }
-- "", "-", "-" : only standard input is named; NoFileReads + OpenFile vs. nothing set: same run, no error, stdin only
example : onlyStdin [[], dash, dash] = true := by decide
example : step exReadsOnly (St.init [] [[], dash, dash] 2) .mainLoop = step exNoFlags (St.init [] [[], dash, dash] 2) .mainLoop :=
  (stdin_operands_ignore_flags _ _ _ (by decide)).1
example : (step exReadsOnly (St.init [] [[], dash, dash] 2) .mainLoop).1 = [.useStdin, .useStdin] := by decide
-- … while a file operand after the "-" is refused (so the hypothesis of stdin_operands_ignore_flags is needed)
example : (step exReadsOnly (St.init [[105]] [dash, [105]] 1) .mainLoop).1 = [.useStdin, .error .noFileReads] := by decide
example : (step exNoFlags (St.init [[105]] [dash, [105]] 1) .mainLoop).1 = [.useStdin, .open [105] .rd .configured true] := by decide
example : step exReadsOnly (St.init [] [] 2) (.getlineFile dash) = step exNoFlags (St.init [] [] 2) (.getlineFile dash) :=
  getline_dash_ignores_flags _ _ _
example : (readDecision exReadsOnly dash, readDecision exReadsOnly [105], readDecision exNoFlags [105]) =
    (.stdin, .refuse .noFileReads, .viaOpenFile .rd) := by decide
example : (writeDecision exFlags dash .wrTrunc, writeDecision exFlags [111] .wrTrunc, writeDecision exNoFlags [111] .wrAppend,
    writeDecision exNoFlags devStderr .wrTrunc) = (.stdout, .refuse .noFileWrites, .viaOpenFile .wrAppend, .stderr) := by decide
-- the same name, two states that differ in everything but the answer for it: same effects
example : (step exNoFlags (St.init [[105]] [] 0) (.getlineFile [105])).1 = (step exNoFlags (St.init [[120], [105]] [[120]] 3) (.getlineFile [105])).1 :=
  (open_effects_depend_on_answer_only _ _ _ _ true rfl rfl (by decide)).1
-- … and a different answer gives different effects (the answer does matter)
example : (step exNoFlags (St.init [[105]] [] 0) (.getlineFile [105])).1 ≠ (step exNoFlags (St.init [] [] 0) (.getlineFile [105])).1 := by decide

/-! ### every entry point: ExecProgram, Execute, ExecuteContext (Background, TODO, any other context) -/

def exReadsOnlyN : Flags := { noExec := false, noWrites := false, noReads := true, hook := true }
def exHookN : Flags := { noExec := false, noWrites := false, noReads := false, hook := true }
def exAllN : Flags := { noExec := true, noWrites := true, noReads := true, hook := false }

theorem report_ne_finished (e : Entry) (d : Bool) (err : Err) : report e d err ≠ .finished := by
  unfold report; split <;> simp

/-- `executeAll`'s effect groups are `trace`'s over BEGIN's operations, the pattern-action loop, END's operations: the model the
differential runs validate is the one the confinement theorems are about. -/
theorem executeAll_groups_eq_trace (e : Entry) (d : Bool) (f : Flags) (s : St) (p : Phases) (h : p.hasRest = true) :
    (executeAll e d f s p).1 = trace f s (p.begin ++ .mainLoop :: p.endOps) := by
  have hcons : (IoOp.mainLoop :: p.endOps) = [IoOp.mainLoop] ++ p.endOps := rfl
  rw [trace_append, hcons, trace_append, ← runOps_groups f _ p.endOps]
  unfold executeAll
  rcases h1 : runOps f s p.begin with ⟨g1, s1, r1⟩
  cases r1 with
  | some err => simp
  | none =>
    simp only [h, Bool.not_true, Bool.false_eq_true, if_false]
    rcases h2 : runOps f s1 [.mainLoop] with ⟨g2, s2, r2⟩
    cases r2 with
    | some err => simp
    | none =>
      simp only
      rcases h3 : runOps f s2 p.endOps with ⟨g3, s3, r3⟩
      cases r3 <;> simp

/-- "Each attempt ends the run with an error" through every entry point and whatever the state of the context: the run
reports success exactly when no operation of BEGIN, the pattern-action loop or END produced a run-time error — an error is
never turned into success, and the phases after it are not run (their groups are absent: `executeAll_groups_eq_trace`). -/
theorem refusal_ends_run_every_entry (e : Entry) (d : Bool) (f : Flags) (s : St) (p : Phases) :
    (executeAll e d f s p).2 = .finished ↔ ∀ g ∈ (executeAll e d f s p).1, g.any Effect.isError = false := by
  unfold executeAll
  have k1 := runOps_err_iff f s p.begin
  rcases h1 : runOps f s p.begin with ⟨g1, s1, r1⟩
  rw [h1] at k1
  cases r1 with
  | some err =>
    simp only at k1 ⊢
    constructor
    · intro h; exact absurd h (report_ne_finished _ _ _)
    · intro h; exact absurd (k1.mpr h) (by simp)
  | none =>
    have a1 := k1.mp rfl
    by_cases hr : p.hasRest = true
    · simp only [hr, Bool.not_true, Bool.false_eq_true, if_false]
      have k2 := runOps_err_iff f s1 [.mainLoop]
      rcases h2 : runOps f s1 [.mainLoop] with ⟨g2, s2, r2⟩
      rw [h2] at k2
      cases r2 with
      | some err =>
        simp only at k2 ⊢
        constructor
        · intro h; exact absurd h (report_ne_finished _ _ _)
        · intro h
          exact absurd (k2.mpr (fun g hg => h g (List.mem_append_right _ hg))) (by simp)
      | none =>
        have a2 := k2.mp rfl
        simp only
        have k3 := runOps_err_iff f s2 p.endOps
        rcases h3 : runOps f s2 p.endOps with ⟨g3, s3, r3⟩
        rw [h3] at k3
        cases r3 with
        | some err =>
          simp only at k3 ⊢
          constructor
          · intro h; exact absurd h (report_ne_finished _ _ _)
          · intro h
            exact absurd (k3.mpr (fun g hg => h g (List.mem_append_right _ hg))) (by simp)
        | none =>
          have a3 := k3.mp rfl
          simp only at a1 a2 a3 ⊢
          constructor
          · intro _ g hg
            rcases List.mem_append.mp hg with hg | hg
            · rcases List.mem_append.mp hg with hg | hg
              · exact a1 g hg
              · exact a2 g hg
            · exact a3 g hg
          · intro _; trivial
    · have hr' : p.hasRest = false := by cases hh : p.hasRest <;> simp_all
      simp only [hr', Bool.not_false, if_true]
      simp only at a1
      exact ⟨fun _ => a1, fun _ => trivial⟩

/-- While the context is live (not cancelled, deadline not reached) the entry point is irrelevant: all five give the same
effects and the same outcome. -/
theorem entry_irrelevant_while_context_live (e e' : Entry) (f : Flags) (s : St) (p : Phases) :
    executeAll e false f s p = executeAll e' false f s p := by
  simp [executeAll, report]

/-- `ExecProgram`, `Execute`, `ExecuteContext(Background)` and `ExecuteContext(TODO)` never look at the context. -/
theorem context_irrelevant_without_check (e : Entry) (h : e.checkCtx = false) (d d' : Bool) (f : Flags) (s : St) (p : Phases) :
    executeAll e d f s p = executeAll e d' f s p := by
  simp [executeAll, report, h]

/-- Under a live context the error reported is the refused operation's own. -/
theorem live_context_reports_own_error (e : Entry) (f : Flags) (s : St) (p : Phases) :
    (executeAll e false f s p).2 ≠ .ctxFailed := by
  unfold executeAll
  rcases runOps f s p.begin with ⟨g1, s1, r1⟩
  cases r1 with
  | some err => simp [report]
  | none =>
    simp only
    split
    · simp
    · rcases runOps f s1 [.mainLoop] with ⟨g2, s2, r2⟩
      cases r2 with
      | some err => simp [report]
      | none =>
        simp only
        rcases runOps f s2 p.endOps with ⟨g3, s3, r3⟩
        cases r3 <;> simp [report]

/-- A refused operation in BEGIN, through every entry point: the run is over — nothing of the pattern-action loop or of END
happens — and it does not report success. -/
theorem denied_in_begin_every_entry (e : Entry) (d : Bool) (f : Flags) (s : St) (op : IoOp) (rest : List IoOp) (p : Phases) (err : Err)
    (hb : p.begin = op :: rest) (hd : denied f s op = some err) :
    executeAll e d f s p = ([[.error err]], report e d err) := by
  have h := denied_step f s op err hd
  simp [executeAll, hb, runOps, h, firstErr]

/-! ### names the operating system or other awks treat specially are file names

The model has exactly three names that are not file names: "-" (read: standard input; written: standard output) and, when
written and NoFileWrites is off, "/dev/stdout" and "/dev/stderr". Every other byte string — "/dev/stdin", "/dev/fd/3",
"/proc/self/fd/3", "/dev/tty", "/dev/null", "/inet/tcp/…" — is refused by the flags or handed to the configured open function. -/

def devStdin : Bytes := [47, 100, 101, 118, 47, 115, 116, 100, 105, 110]   -- "/dev/stdin"
def devFd3 : Bytes := [47, 100, 101, 118, 47, 102, 100, 47, 51]            -- "/dev/fd/3"

theorem read_exception_exact (f : Flags) (n : Bytes) : readDecision f n = .stdin ↔ n = dash := by
  unfold readDecision
  by_cases h : n = dash
  · simp [h]
  · by_cases h2 : f.noReads = true <;> simp [h, h2]

theorem write_exceptions_exact (f : Flags) (n : Bytes) (m : Mode) :
    (writeDecision f n m = .stdout ∨ writeDecision f n m = .stderr) ↔
      (n = dash ∨ (f.noWrites = false ∧ (n = devStdout ∨ n = devStderr))) := by
  unfold writeDecision
  by_cases h : n = dash
  · simp [h]
  · by_cases h2 : f.noWrites = true
    · simp [h, h2]
    · have h2' : f.noWrites = false := by cases hh : f.noWrites <;> simp_all
      by_cases h3 : n = devStderr
      · subst h3; simp [h2', show devStderr ≠ dash by decide]
      · by_cases h4 : n = devStdout
        · subst h4; simp [h2', show devStdout ≠ dash by decide, show devStdout ≠ devStderr by decide]
        · simp [h, h2', h3, h4]

/-- `getline < n` for ANY name other than "-" that is not an open stream: refused under NoFileReads (the run ends), otherwise
exactly one open, through the configured open function, and nothing else — standard input is not touched. -/
theorem special_names_read_as_files (f : Flags) (s : St) (n : Bytes) (h : find n s.streams = none) (hn : n ≠ dash) :
    (step f s (.getlineFile n)).1 =
      if f.noReads then [.error .noFileReads]
      else if s.existing.contains n then [.open n .rd .configured true, .useStream n .inFile]
      else [.open n .rd .configured false, .soft] := by
  simp only [step, inFile, h]
  by_cases h2 : f.noReads = true
  · simp [hn, h2]
  · by_cases h3 : n ∈ s.existing <;> simp [hn, h2, h3]

/-- `print > n` / `print >> n` for any name other than "-", "/dev/stdout", "/dev/stderr" that is not an open stream: refused
under NoFileWrites, otherwise exactly one open through the configured open function; under NoFileWrites the two /dev names are
refused as well. -/
theorem special_names_written_as_files (f : Flags) (s : St) (n : Bytes) (ok : Bool) (h : find n s.streams = none) (hn : n ≠ dash) :
    (f.noWrites = true → (step f s (.printGt n ok)).1 = [.error .noFileWrites] ∧ (step f s (.printApp n ok)).1 = [.error .noFileWrites]) ∧
    (f.noWrites = false → n ≠ devStdout → n ≠ devStderr →
      (step f s (.printGt n ok)).1 =
        (if ok then [.open n .wrTrunc .configured true, .useStream n .outFile] else [.open n .wrTrunc .configured false, .error .redirect]) ∧
      (step f s (.printApp n ok)).1 =
        (if ok then [.open n .wrAppend .configured true, .useStream n .outFile] else [.open n .wrAppend .configured false, .error .redirect])) := by
  constructor
  · intro hw
    simp [step, outFile, h, hn, hw]
  · intro hw h1 h2
    cases ok <;> simp [step, outFile, h, hn, hw, h1, h2]

example : (step exReadsOnlyN (St.init [devFd3] [] 2) (.getlineFile devFd3)).1 = [.error .noFileReads] := by decide
example : (step exHookN (St.init [devFd3] [] 2) (.getlineFile devFd3)).1 = [.open devFd3 .rd .configured true, .useStream devFd3 .inFile] := by decide
example : (step exReadsOnlyN (St.init [] [devStdin] 2) .mainLoop).1 = [.error .noFileReads] := by decide
example : (step exReadsOnlyN (St.init [] [] 2) (.printGt devStdin true)).1 = [.open devStdin .wrTrunc .configured true, .useStream devStdin .outFile] := by decide
example : devFd3 ≠ dash ∧ devStdin ≠ dash ∧ devStdin ≠ devStdout ∧ devStdin ≠ devStderr := by decide

/-! non-vacuity of the entry-point clause -/
def exPhases : Phases := { begin := [.getlineFile dash, .system [120] true], hasRest := true, endOps := [.printGt [111] true] }
example : executeAll .ctxOther false exReadsOnlyN (St.init [] [] 1) exPhases =
    ([[.useStdin], [.exec [120] true], [.useStdin], [.open [111] .wrTrunc .configured true, .useStream [111] .outFile]], .finished) := by decide
example : executeAll .ctxOther false exAllN (St.init [] [] 1) exPhases = ([[.useStdin], [.error .noExecSystem]], .failed .noExecSystem) := by decide
example : executeAll .ctxOther true exAllN (St.init [] [] 1) exPhases = ([[.useStdin], [.error .noExecSystem]], .ctxFailed) := by decide
example : executeAll .execute true exAllN (St.init [] [] 1) exPhases = ([[.useStdin], [.error .noExecSystem]], .failed .noExecSystem) := by decide
example : denied exAllN (St.init [] [] 1) (.system [120] true) = some .noExecSystem := by decide
example : (executeAll .ctxOther false exAllN (St.init [] [] 1) { exPhases with begin := [] }).2 = .failed .noFileWrites := by decide

end GoawkModel.C12.Props
