/-! Property theorems for C12 (see /verif/DESIGN.md). Only property theorems and non-vacuity examples live here. -/
