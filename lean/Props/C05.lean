import Proofs.C05Pins
import GoawkModel.C05
import GoawkModel.C05Cmp
import Proofs.C05Value
import Proofs.C05Tables
import Proofs.C05Scan
import Proofs.C05Rec
import Proofs.C05Longest
import Proofs.C05Store
/-!
# C05 — number/string conversion and comparison typing follow the AWK value model

Theorems over the model `GoawkModel.C05` (mirror of `interp/value.go` and of the comparison opcodes of `interp/vm.go`) and
over the tables regenerated from `compiler.go` / `vm.go` on every run (`GoawkModel.Generated.C05Cmp`).
All statements quantify over every value, every byte string and every behaviour of `strconv` (`sc`) and of the
CONVFMT/OFMT formatter (`fmt`): nothing here depends on floating-point rounding.
-/
namespace GoawkModel.C05.Props
open GoawkModel GoawkModel.C05

/-! ## comparison mode -/

/-- a number, an unset variable, or input-derived text that looks entirely like a number -/
def numLike (sc : Strconv Num) : Val → Prop
  | .null => True
  | .num _ => True
  | .str _ => False
  | .numstr s => (scanWhole sc.ovf s).isSome = true

/-- two values compare numerically exactly when each is number-like, and as strings otherwise -/
theorem mode_exact (sc : Strconv Num) (l r : Val) :
    cmpMode sc l r = .numeric ↔ (numLike sc l ∧ numLike sc r) := by
  unfold cmpMode
  cases l <;> cases r <;> simp [isTrueStr, numLike] <;>
    (try cases scanWhole sc.ovf _) <;> simp <;> (try cases scanWhole sc.ovf _) <;> simp

example : cmpMode ⟨fun _ => .zero, fun _ => false⟩ (.numstr [32, 49, 48]) (.num (.ofInt 9)) = .numeric := by decide
example : cmpMode ⟨fun _ => .zero, fun _ => false⟩ (.numstr [49, 120]) (.num (.ofInt 9)) = .string := by decide

/-- in numeric mode the comparison is the IEEE comparison of the two numbers, in string mode the bytewise comparison
of the two strings — for each of the six operators -/
theorem compare_by_mode (sc : Strconv Num) (fmt : Num → Bytes) (op : CmpOp) (l r : Val) :
    compareWith sc fmt op op l r =
      match cmpMode sc l r with
      | .numeric => op.ofNum (((isTrueStr sc l).getD .zero).ord ((isTrueStr sc r).getD .zero))
      | .string => op.ofOrdering (bytesCmp (toStr fmt l) (toStr fmt r)) := by
  unfold compareWith cmpMode
  cases isTrueStr sc l <;> cases isTrueStr sc r <;> rfl

/-! ## the six operators are mutually consistent -/

/-- a NaN takes part in a numeric comparison -/
def nanInvolved (sc : Strconv Num) (l r : Val) : Prop :=
  ∃ ln rn, isTrueStr sc l = some ln ∧ isTrueStr sc r = some rn ∧ (ln = .nan ∨ rn = .nan)

/-- `a != b` iff not `a == b`; `a < b` iff `b > a`; `a <= b` iff `b >= a`; `a == b` iff `b == a` — for all values,
both modes, NaN included -/
theorem cmp_consistent_all (sc : Strconv Num) (fmt : Num → Bytes) (l r : Val) :
    compareWith sc fmt .ne .ne l r = (!compareWith sc fmt .eq .eq l r) ∧
    compareWith sc fmt .lt .lt l r = compareWith sc fmt .gt .gt r l ∧
    compareWith sc fmt .le .le l r = compareWith sc fmt .ge .ge r l ∧
    compareWith sc fmt .eq .eq l r = compareWith sc fmt .eq .eq r l := by
  refine ⟨compareWith_ne sc fmt l r, ?_, ?_, ?_⟩ <;>
  · unfold compareWith
    cases isTrueStr sc l with
    | none =>
      cases isTrueStr sc r <;> simp only [] <;> rw [bytesCmp_swap (toStr fmt l) (toStr fmt r)] <;>
        cases bytesCmp (toStr fmt l) (toStr fmt r) <;> rfl
    | some ln =>
      cases isTrueStr sc r with
      | none =>
        simp only []; rw [bytesCmp_swap (toStr fmt l) (toStr fmt r)]
        cases bytesCmp (toStr fmt l) (toStr fmt r) <;> rfl
      | some rn =>
        simp only []; rw [Num.ord_swap ln rn]
        cases ln.ord rn with
        | none => rfl
        | some o => cases o <;> rfl

/-- for non-NaN operands exactly one of `<`, `==`, `>` holds, `a <= b` iff not `a > b`, `a >= b` iff not `a < b` -/
theorem cmp_consistent (sc : Strconv Num) (fmt : Num → Bytes) (l r : Val) (h : ¬ nanInvolved sc l r) :
    exactlyOne (compareWith sc fmt .lt .lt l r) (compareWith sc fmt .eq .eq l r) (compareWith sc fmt .gt .gt l r) = true ∧
    compareWith sc fmt .le .le l r = (!compareWith sc fmt .gt .gt l r) ∧
    compareWith sc fmt .ge .ge l r = (!compareWith sc fmt .lt .lt l r) := by
  unfold compareWith
  cases hl : isTrueStr sc l with
  | none => cases isTrueStr sc r <;> simp [ofOrdering_trichotomy, ofOrdering_le, ofOrdering_ge]
  | some ln =>
    cases hr : isTrueStr sc r with
    | none => simp [ofOrdering_trichotomy, ofOrdering_le, ofOrdering_ge]
    | some rn =>
      cases ho : ln.ord rn with
      | none =>
        exfalso; apply h
        exact ⟨ln, rn, hl, hr, (Num.ord_none_iff ln rn).mp ho⟩
      | some o => simp only [CmpOp.ofNum, ho]; cases o <;> decide

example : ¬ nanInvolved ⟨fun _ => .zero, fun _ => false⟩ (.str [97]) (.num .nan) := by
  rintro ⟨ln, rn, h, _⟩; simp [isTrueStr] at h

/-- the hypothesis of `cmp_consistent` is needed: with a NaN none of `<`, `==`, `>` holds (so `<=` is not `!(>)`) -/
theorem cmp_nan_all_false (sc : Strconv Num) (fmt : Num → Bytes) (x : Num) :
    compareWith sc fmt .lt .lt (.num .nan) (.num x) = false ∧ compareWith sc fmt .eq .eq (.num .nan) (.num x) = false ∧
    compareWith sc fmt .gt .gt (.num .nan) (.num x) = false ∧ compareWith sc fmt .le .le (.num .nan) (.num x) = false := by
  simp [compareWith, isTrueStr, Num.ord, CmpOp.ofNum]

/-! ## fused jumps (over the tables regenerated from compiler.go and vm.go) -/

/-- the value of the expression `l tok r` is the comparison the token stands for (the opcode `binaryOp` selects, as
executed by vm.go, uses that operator in string mode and in numeric mode) -/
theorem unfused_correct (sc : Strconv Num) (fmt : Num → Bytes) (tok : String) (op : CmpOp) (h : tokOp tok = some op)
    (l r : Val) : exprValue sc fmt tok l r = some (compareWith sc fmt op op l r) :=
  exprValue_spec sc fmt tok op h l r

/-- each conditional jump that `condition()` emits for a comparison — fused jump opcode, or for inverted ordering
comparisons the unfused expression followed by `JumpFalse` — is taken iff the expression's value is true (not inverted) /
false (inverted); NaN operands included -/
theorem fused_eq_unfused (sc : Strconv Num) (fmt : Num → Bytes) (tok : String) (op : CmpOp) (h : tokOp tok = some op)
    (invert : Bool) (l r : Val) :
    condJumps sc fmt tok invert l r = (exprValue sc fmt tok l r).map fun b => invert != b := by
  rw [condJumps_spec sc fmt tok op h, exprValue_spec sc fmt tok op h]; rfl

example : tokOp "LTE" = some .le := rfl

/-- the generated facts are the ones the model was written against (case bodies of the twelve opcodes with the operators
masked, `JumpTrue`/`JumpFalse`/`Not`/`Boolean`, `jumpOp`, the byte predicates and the blank table of value.go) -/
theorem gen_matches :
    Generated.C05Cmp.vmBodies = expectedBodies ∧
    (∀ c : UInt8, isAsciiSpace c = Generated.C05Cmp.asciiSpaceBytes.contains c.toNat) :=
  ⟨gen_matches_bodies, gen_matches_space⟩

theorem gen_matches_sources :
    Generated.C05Cmp.vmBodyJumpTrue = "offset := code[ip] ; ip++ ; v := p.pop() ; if v.boolean() { ip += int(offset) }" ∧
    Generated.C05Cmp.vmBodyJumpFalse = "offset := code[ip] ; ip++ ; v := p.pop() ; if !v.boolean() { ip += int(offset) }" ∧
    Generated.C05Cmp.condJumpOpSrc = "func(normal, inverted Opcode) Opcode { if invert { return inverted } return normal }" ∧
    Generated.C05Cmp.condFallback = ("JumpTrue", "JumpFalse", "expr") ∧
    Generated.C05Cmp.src_isDigit = "{ return c >= '0' && c <= '9' }" :=
  ⟨gen_matches_jumps.1, gen_matches_jumps.2.1, gen_matches_jumps.2.2.2.2.1, gen_matches_jumps.2.2.2.2.2.1, gen_matches_value.2.2.2.1⟩

/-! ## the two string → number routines agree -/

/-- whenever `parseFloat` accepts a string — so that the value is compared and truth-tested as a number —
`parseFloatPrefix` (arithmetic) yields the same special value or hands exactly the same text to `strconv.ParseFloat`:
optional ASCII blanks, sign, decimal and hexadecimal forms with and without exponent (`p0` appended by both), `inf`,
`infinity`, `nan`, `+nan`; for every string and every range-error behaviour of `strconv` -/
theorem whole_prefix_agree (ovf : Bytes → Bool) (s : Bytes) (r : Res) (h : scanWhole ovf s = some r) :
    scanPrefix s = r :=
  whole_prefix_agree' ovf s r h

example : scanWhole (fun _ => false) [32, 43, 48, 120, 49, 46, 56, 9] = some (.conv [43, 48, 120, 49, 46, 56, 112, 48]) := by decide
example : scanWhole (fun _ => false) [45, 73, 110, 102, 105, 110, 105, 116, 121] = some (.inf true) := by decide
example : scanWhole (fun _ => false) [49, 101, 53, 32] = some (.conv [49, 101, 53]) := by decide

/-- the number a numeric-looking input string stands for is the same in comparisons (`isTrueStr`), truth tests
(`boolean`) and arithmetic (`num`) -/
theorem same_number (sc : Strconv Num) (s : Bytes) (n : Num) (h : isTrueStr sc (.numstr s) = some n) :
    toNum sc (.numstr s) = n ∧ toBool sc (.numstr s) = n.nonzero := by
  simp only [isTrueStr] at h
  cases hw : scanWhole sc.ovf s with
  | none => simp [hw] at h
  | some r =>
    simp [hw] at h
    simp [toNum, toBool, hw, whole_prefix_agree sc.ovf s r hw, h]

/-! ## string → number: the longest leading numeric prefix, else 0

Grammar: `GoawkModel/C05Grammar.lean` (`NumTextS`, `NumText`, `IsLongestNumPrefix`, `textRes`, `HexNoDigits`). -/

/-- `parseFloatPrefix s`, with `u` = `s` after its leading ASCII blanks:
* either it converts exactly the LONGEST prefix of `u` that is a numeric text (existence: the consumed text is a numeric
  text of shape `sh`; maximality: no longer prefix of `u` is a numeric text) — as a special value for `nan`/`inf`, else by
  handing that text (plus `p0` for a hex text without exponent) to `strconv`;
* or it returns 0 and no prefix of `u` is a numeric text;
* or — the one back-off the scanner does not make — `u` is sign? `0x` followed by a byte but no hex digit
  (`0xg`, `-0x.`): it returns 0 although the longest numeric text is sign? `0` (same value up to the sign of zero). -/
theorem prefix_longest (s : Bytes) :
    let u := s.dropWhile isAsciiSpace
    (∃ sh p, IsLongestNumPrefix u p ∧ NumTextS sh p ∧ scanPrefix s = textRes sh p) ∨
    (scanPrefix s = .zero ∧ ∀ q, q <+: u → ¬ NumText q) ∨
    (scanPrefix s = .zero ∧ HexNoDigits u ∧ ∃ sign, IsOptSign sign ∧ IsLongestNumPrefix u (sign ++ [48])) :=
  prefixCore_longest (s.dropWhile isAsciiSpace)

/-- the statement without the third alternative (“else 0” only when NO prefix is a numeric text) -/
def PrefixLongestStrict : Prop :=
  ∀ s : Bytes, let u := s.dropWhile isAsciiSpace
    (∃ sh p, IsLongestNumPrefix u p ∧ NumTextS sh p ∧ scanPrefix s = textRes sh p) ∨
    (scanPrefix s = .zero ∧ ∀ q, q <+: u → ¬ NumText q)

/-- … is false of the code as it is: `0xg` converts through the hex branch to 0 by "no digit", not as the text `0`
(observation G05-1: for `-0xg` the result is +0 where the text `-0` denotes −0; witness replayed by the harness corpus) -/
theorem prefix_longest_strict_fails : ¬ PrefixLongestStrict := by
  intro h
  have h0 : scanPrefix [48, 120, 103] = .zero := by decide
  rcases h [48, 120, 103] with ⟨sh, p, _, _, hr⟩ | ⟨_, hno⟩
  · rw [h0] at hr; cases sh <;> simp [textRes] at hr
  · exact hno [48] ⟨[120, 103], rfl⟩ ⟨.dec, numText_zero [] (Or.inl rfl)⟩

/-- the back-off cases: `1e`, `1e+`, `1e-x` convert `1`; `0x` converts `0`; `.`, `+`, `-.`, `e5` give 0 (no numeric text);
`0x1p` converts `0x1` (+`p0`); `1.5.2` converts `1.5`; `.5e` converts `.5`; `0xg` is the quirk -/
example : scanPrefix [49, 101] = .conv [49] ∧ scanPrefix [49, 101, 43] = .conv [49] ∧
    scanPrefix [49, 101, 45, 120] = .conv [49] ∧ scanPrefix [48, 120] = .conv [48] ∧
    scanPrefix [46] = .zero ∧ scanPrefix [43] = .zero ∧ scanPrefix [45, 46] = .zero ∧ scanPrefix [101, 53] = .zero ∧
    scanPrefix [48, 120, 49, 112] = .conv [48, 120, 49, 112, 48] ∧ scanPrefix [49, 46, 53, 46, 50] = .conv [49, 46, 53] ∧
    scanPrefix [46, 53, 101] = .conv [46, 53] ∧ scanPrefix [48, 120, 103] = .zero ∧
    scanPrefix [32, 43, 49, 101, 53, 120] = .conv [43, 49, 101, 53] := by decide

example : NumTextS .dec [43, 49, 46, 101, 53] :=
  ⟨[43], [49, 46, 101, 53], rfl, Or.inr ⟨43, rfl, by decide⟩, [49], [46], [], [101, 53], rfl,
    ⟨by decide, by decide, Or.inr rfl, Or.inl (by simp)⟩, Or.inr ⟨101, [], [53], rfl, by decide, Or.inl rfl, by decide, by simp⟩⟩

/-! ## provenance is per value: a freshly read record does not depend on the history -/

/-- after ANY history of operations on earlier records (assigning `$k`, `$0`, `NF`, sub/gsub, getline into a field —
all of which set "true string" flags), the next record read has `$0` and every field input-derived again: `$0` is the
numeric-string of the line and `$(k+1)` the numeric-string of the k-th split field, for every FS (`split`), OFS (`join`),
start state and history -/
theorem fresh_record_provenance (split : Bytes → List Bytes) (join : List Bytes → Bytes) (r0 : Rec)
    (history : List RecOp) (line : Bytes) :
    let r := (r0.run split join history).step split join (.read line)
    r.getField 0 = .numstr line ∧
    (∀ k f, (split line)[k]? = some f → r.getField (k + 1) = .numstr f) ∧
    (∀ k, (split line)[k]? = none → r.getField (k + 1) = .str []) := by
  refine ⟨rfl, fun k f h => Rec.getField_ofLine split line k f h, fun k h => ?_⟩
  simp [Rec.step, Rec.getField, Rec.ofLine, h]

/-- hence its comparison mode is decided by its own text alone -/
theorem fresh_field_mode (sc : Strconv Num) (split : Bytes → List Bytes) (join : List Bytes → Bytes) (r0 : Rec)
    (history : List RecOp) (line : Bytes) (k : Nat) (f : Bytes) (h : (split line)[k]? = some f) (other : Val) :
    cmpMode sc (((r0.run split join history).step split join (.read line)).getField (k + 1)) other =
      cmpMode sc (.numstr f) other := by
  rw [(fresh_record_provenance split join r0 history line).2.1 k f h]

/-- the flag vector and the field vector keep the same length through every history (so `getField` never reads a
flag of another record's field) -/
theorem flags_track_fields (split : Bytes → List Bytes) (join : List Bytes → Bytes) (line : Bytes) (b : Bool)
    (history : List RecOp) : ((Rec.ofLine split line b).run split join history).WF :=
  Rec.wf_run split join history _ (Rec.wf_ofLine split line b)

/-- within a record an assigned field is a true string and `$0` becomes one, the other fields keep their provenance -/
example : let r := (Rec.ofLine (fun _ => [[49], [50]]) [49, 32, 50] false).setField (fun _ => [120]) 1 [57]
    r.getField 2 = .str [57] ∧ r.getField 1 = .numstr [49] ∧ r.getField 0 = .str [120] := by decide

theorem gen_matches_record_flags :
    Generated.C05Cmp.src_setLine_flags = ["p.lineIsTrueStr = isTrueStr"] ∧
    Generated.C05Cmp.src_ensureFields_flags =
      ["p.fieldsIsTrueStr = p.fieldsIsTrueStr[:0]", "for range p.fields { p.fieldsIsTrueStr = append(p.fieldsIsTrueStr, false) }"] :=
  ⟨gen_matches_record.1, gen_matches_record.2.1⟩

/-- CONVFMT / OFMT are held in exactly two fields, `toString` converts with the current CONVFMT field, and `resetVars`
resets both (no derived cached copy that a reset could forget) -/
theorem gen_matches_formats :
    Generated.C05Cmp.interpFormatFields = ["convertFormat", "outputFormat"] ∧
    Generated.C05Cmp.src_toString = "{ return v.str(p.convertFormat) }" ∧
    Generated.C05Cmp.src_resetVars_formats = ["p.convertFormat = \"%.6g\"", "p.outputFormat = \"%.6g\""] :=
  ⟨rfl, rfl, rfl⟩

/-! ## truth test -/

/-- the truth value of input-derived text: its number (≠ 0) when it looks entirely like a number, else non-emptiness -/
theorem bool_agree (sc : Strconv Num) (s : Bytes) :
    toBool sc (.numstr s) =
      match isTrueStr sc (.numstr s) with
      | some n => n.nonzero
      | none => !s.isEmpty := by
  simp only [toBool, isTrueStr]
  cases scanWhole sc.ovf s <;> rfl

/-! ## number → string -/

/-- an integral number within the signed 64-bit range converts to a string as the exact integer, any other finite
number through the format (CONVFMT, or OFMT in print); `k` ranges over all integers, the value is `k · 2^-1074` -/
theorem int_to_str (fmt : Num → Bytes) (k : Int) :
    numToStr fmt (.fin k) =
      if scale ∣ k ∧ -(2 ^ 63) * scale ≤ k ∧ k < 2 ^ 63 * scale then decimal (k / scale) else fmt (.fin k) := by
  show (if Num.fin k = Num.ofInt (toInt64 k) then decimal (toInt64 k) else fmt (.fin k)) = _
  by_cases h : scale ∣ k ∧ -(2 ^ 63) * scale ≤ k ∧ k < 2 ^ 63 * scale
  · rw [if_pos ((fin_eq_ofInt_toInt64 k).mpr h), if_pos h]
    congr 1
    obtain ⟨⟨c, hc⟩, hlo, hhi⟩ := h
    have hne : scale ≠ 0 := by have := scale_pos; omega
    have h1 : k.tdiv scale = c := by rw [hc]; exact Int.mul_tdiv_cancel_left c hne
    have h2 : k / scale = c := by rw [hc]; exact Int.mul_ediv_cancel_left c hne
    have hin : -(2 ^ 63) ≤ c ∧ c < 2 ^ 63 := by
      have := (fin_eq_ofInt_toInt64 k).mpr ⟨⟨c, hc⟩, hlo, hhi⟩
      simp only [Num.ofInt, Num.fin.injEq, toInt64, h1] at this
      by_cases hr : -(2 ^ 63) ≤ c ∧ c < 2 ^ 63
      · exact hr
      · rw [if_neg hr] at this
        have : c = -(2 ^ 63) := by
          have h3 : scale * c = scale * -(2 ^ 63) := by rw [← hc, this, Int.mul_comm]
          exact Int.eq_of_mul_eq_mul_left hne h3
        rw [this]; constructor <;> decide
    simp only [toInt64, h1, h2, if_pos hin]
  · rw [if_neg (fun h' => h ((fin_eq_ofInt_toInt64 k).mp h')), if_neg h]

example : numToStr (fun _ => []) (.ofInt 42) = [52, 50] := by
  have : (42 : Int) * scale / scale = 42 := Int.mul_ediv_cancel 42 (by have := scale_pos; omega)
  rw [Num.ofInt, int_to_str, if_pos, this]; · rfl
  refine ⟨⟨42, Int.mul_comm _ _⟩, ?_, ?_⟩ <;> (have := scale_pos; omega)

theorem nonfinite_to_str (fmt : Num → Bytes) :
    numToStr fmt .nan = [110, 97, 110] ∧ numToStr fmt .pinf = [105, 110, 102] ∧
    numToStr fmt .ninf = [45, 105, 110, 102] := ⟨rfl, rfl, rfl⟩

/-! ## stores that may not happen: the provenance is what the last SUCCESSFUL store left -/

/-- everything a program can observe of a value through comparisons (six operators, either side, any other operand),
the truth test, arithmetic and concatenation -/
def sameProbes (a b : Val) : Prop :=
  ∀ (sc : Strconv Num) (fmt : Num → Bytes),
    (∀ (op : CmpOp) (r : Val), compareWith sc fmt op op a r = compareWith sc fmt op op b r ∧
                                compareWith sc fmt op op r a = compareWith sc fmt op op r b) ∧
    toBool sc a = toBool sc b ∧ toNum sc a = toNum sc b ∧ toStr fmt a = toStr fmt b

/-- a `getline t` (variable, function local, special variable, array element) that does not return 1 — end of input
(0) or an error (-1: missing file, directory, read error, unopenable next ARGV file) — leaves every probe of its target
as it was: an unset target is still unset, numeric-looking input text still compares numerically -/
theorem getline_failed_keeps (ret : Int) (h : ret ≠ 1) (line : Bytes) (old : Val) :
    getlineStore ret line old = old ∧ sameProbes (getlineStore ret line old) old := by
  rw [getlineStore_ne ret line old h]
  exact ⟨rfl, fun _ _ => ⟨fun _ _ => ⟨rfl, rfl⟩, rfl, rfl, rfl⟩⟩

example : (-1 : Int) ≠ 1 := by decide
example : getlineStore (-1) [] .null = .null := by decide
example : getlineStore 0 [] (.numstr [32, 49, 48, 32]) = .numstr [32, 49, 48, 32] := by decide

/-- the hypothesis is needed, and a store of the (empty) line on failure is observable: an unset value compares with
a number numerically (`x == 0` holds), the empty input text as a string (`"" == "0"` does not) -/
theorem getline_store_on_failure_observable :
    cmpMode ⟨fun _ => .zero, fun _ => false⟩ .null (.num .zero) = .numeric ∧
    cmpMode ⟨fun _ => .zero, fun _ => false⟩ (.numstr []) (.num .zero) = .string := by
  decide

/-- a successful `getline t` leaves input-derived text: it compares numerically with a number exactly when the line
looks entirely like a number -/
theorem getline_ok_input_text (sc : Strconv Num) (line : Bytes) (old : Val) (x : Num) :
    getlineStore 1 line old = .numstr line ∧
    (cmpMode sc (getlineStore 1 line old) (.num x) = .numeric ↔ (scanWhole sc.ovf line).isSome = true) := by
  refine ⟨getlineStore_one line old, ?_⟩
  rw [getlineStore_one, mode_exact]
  simp [numLike]

/-- `sub`/`gsub` without a match leave a variable / array-element target as it was (a number, unset value or input text
does not turn into a string); with a match the target is a string -/
theorem sub_store (n : Nat) (out : Bytes) (old : Val) :
    (n = 0 → subStore n out old = old ∧ sameProbes (subStore n out old) old) ∧
    (n ≠ 0 → ∀ sc r, cmpMode sc (subStore n out old) r = .string) := by
  constructor
  · intro h
    have : subStore n out old = old := by simp [subStore, h]
    rw [this]
    exact ⟨rfl, fun _ _ => ⟨fun _ _ => ⟨rfl, rfl⟩, rfl, rfl, rfl⟩⟩
  · intro h sc r
    simp [subStore, h, cmpMode, isTrueStr]

example : subStore 0 [113] (.num .pinf) = .num .pinf := by decide

/-- on a field, `sub`/`gsub` without a match keep text and flag (the field stays input-derived) -/
theorem sub_store_field (out : Bytes) (old : Bytes × Bool) : subStoreField 0 out old = old := by
  simp [subStoreField]

/-- `for (t in a)` over an array without keys leaves the loop variable alone; otherwise it ends as the string of one of
the keys -/
theorem forIn_store (keys : List Bytes) (old : Val) :
    (keys = [] → forInStore keys old = old) ∧
    (keys ≠ [] → ∃ k ∈ keys, forInStore keys old = .str k) := by
  constructor
  · intro h; subst h; rfl
  · intro h
    cases keys with
    | nil => exact absurd rfl h
    | cons k ks => exact forInStore_str ks k

/-- `split` of nothing leaves every element of the target array unset; a piece is input-derived text -/
theorem split_store (parts : List Bytes) (k : Nat) :
    (parts = [] → splitElem parts k = .null) ∧
    (∀ p, parts[k]? = some p → splitElem parts k = .numstr p) := by
  constructor
  · intro h; subst h; simp [splitElem]
  · intro p h; simp [splitElem, h]

/-- the source text of the stores is the one the model was written against (`if ret == 1 { … = numStr(line) }` in the
four getline opcodes for named targets and `GetlineField`, `if n.num() > 0` in `AssignFieldSub`, `if n == 0 { …, in }`
in `BuiltinSub`/`BuiltinGsub`, the loop-variable store of `ForIn` inside the loop, the returns of `getline()`, the
array replacement of `split()`) -/
theorem gen_matches_stores :
    Generated.C05Store.storeBodies = expectedStoreBodies ∧ Generated.C05Store.subBodies = expectedSubBodies :=
  ⟨gen_matches_store_bodies, gen_matches_sub_bodies⟩

/-- `getline()` hands a line back only together with status 1 (three of its thirteen returns; every other return has
the empty line), and `split()` stores a fresh array holding `numStr(part)` per piece -/
theorem gen_matches_getline_returns :
    Generated.C05Store.getlineReturns =
      ["return 0, \"\", err", "return -1, \"\", nil", "return 0, \"\", nil", "return 1, scanner.Text(), nil",
       "return -1, \"\", nil", "return 0, \"\", err", "return -1, \"\", nil", "return 0, \"\", nil", "return 1, scanner.Text(), nil",
       "return 0, \"\", nil", "return 0, \"\", err", "return -1, \"\", nil", "return 1, line, nil"] ∧
    Generated.C05Store.splitArrayStmts =
      ["array := make(map[string]value, len(parts))", "for i, part := range parts { array[strconv.Itoa(i+1)] = numStr(part) }",
       "p.arrays[p.arrayIndex(scope, index)] = array", "return len(array), nil"] :=
  gen_matches_getline_split

end GoawkModel.C05.Props

/-! ## Pinned source text (regenerated tie; extract/pins.go, tools/repin.py)
An edit of one of these functions in /repo breaks the matching obligation: the model below was written from the text
in `Proofs.C05Pins` and has to be compared with the new text before it is re-pinned. -/
namespace GoawkModel.Pins.C05
theorem pin_numStr : Generated.C05Pins.numStr = Expected.numStr := rfl
theorem pin_value_isTrueStr : Generated.C05Pins.value_isTrueStr = Expected.value_isTrueStr := rfl
theorem pin_value_boolean : Generated.C05Pins.value_boolean = Expected.value_boolean := rfl
theorem pin_parseFloat : Generated.C05Pins.parseFloat = Expected.parseFloat := rfl
theorem pin_value_str : Generated.C05Pins.value_str = Expected.value_str := rfl
theorem pin_value_num : Generated.C05Pins.value_num = Expected.value_num := rfl
theorem pin_parseFloatPrefix : Generated.C05Pins.parseFloatPrefix = Expected.parseFloatPrefix := rfl
theorem pin_hasHexPrefix : Generated.C05Pins.hasHexPrefix = Expected.hasHexPrefix := rfl
theorem pin_hasNaNPrefix : Generated.C05Pins.hasNaNPrefix = Expected.hasNaNPrefix := rfl
theorem pin_hasInfPrefix : Generated.C05Pins.hasInfPrefix = Expected.hasInfPrefix := rfl
theorem pin_parseHexFloatPrefix : Generated.C05Pins.parseHexFloatPrefix = Expected.parseHexFloatPrefix := rfl
theorem pin_toString : Generated.C05Pins.toString = Expected.toString := rfl
theorem pin_list : Generated.C05Pins.pinned = Expected.pinned := rfl
end GoawkModel.Pins.C05
-- end of pinned source text
