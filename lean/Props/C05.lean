/-! Property theorems for C05 (see /verif/DESIGN.md). Only property theorems and non-vacuity examples live here. -/
