/-! Property theorems for C09 (see /verif/DESIGN.md). Only property theorems and non-vacuity examples live here. -/
