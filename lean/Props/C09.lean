import Proofs.C09Pins
import GoawkModel.C09
import GoawkModel.C09Spec
import Proofs.C09
import Proofs.C09Conv
import Proofs.C09Compose
import Proofs.C09Sharp
import Proofs.C09Cache
import GoawkModel.C09Digits
import Proofs.C09Scan
import GoawkModel.C09Chars
import Proofs.C09Chars
/-! Property theorems for C09 (see /verif/DESIGN.md). Only property theorems and non-vacuity examples live here.

`goFormat` is what `fmt.Sprintf` does with one conversion GoAWK hands it, `cFormat` is ISO C `printf` for the argument converted
the AWK way; the digit generator of floating conversions is a shared parameter. The full statement `SprintfIsC` is false of the
current code (findings F15, F27, G09-1, G09-2): the `_fails` theorems carry the witnesses, `sprintf_is_c_partial_*` are the
per-family theorems outside those classes. -/
namespace GoawkModel.C09.Props
open GoawkModel GoawkModel.C09

/-- the generated verb-rewrite table is the one the proofs were made for -/
theorem gen_matches :
    Generated.C09Verbs.verbTable =
      [(115, 115, 115), (100, 100, 100), (111, 117, 111), (120, 117, 120), (88, 117, 88), (105, 100, 100), (102, 102, 102),
       (101, 102, 101), (69, 102, 69), (103, 102, 103), (71, 102, 71), (97, 102, 120), (65, 102, 88), (117, 117, 100), (99, 99, 115)] ∧
    Generated.C09Verbs.specChars = [32, 46, 45, 43, 42, 35, 48, 49, 50, 51, 52, 53, 54, 55, 56, 57] ∧
    Generated.C09Verbs.specCharsG = Generated.C09Verbs.specChars ∧
    Generated.C09Verbs.starType = 100 ∧ Generated.C09Verbs.precGVerbs = [103, 71] ∧ Generated.C09Verbs.precGInsert = [46, 54] ∧
    Generated.C09Verbs.convLetters = [115, 100, 102, 117, 99] ∧ Generated.C09Verbs.maxCachedFormats = 100 := by decide

/-- the full statement: every conversion specification in the C domain, applied to any arguments, gives what C gives -/
def SprintfIsC : Prop :=
  ∀ (dg : DigitGen) (chars : Bool) (sp : Spec) (args : List Arg) (out : Bytes),
    sp.wellFormed = true → cPrintf dg chars sp args = some out →
    (∀ w p, InCDomain (resolveSpec (goFlags sp.flags) w p sp.verb)) →
    awkSprintf dg chars sp.render args = .ok out

def dg0 : DigitGen := ⟨fun _ _ _ _ _ => [48]⟩
def num (n : Nat) : Arg := ⟨false, decimal n, .fin false n 0⟩
def negNum (n : Nat) : Arg := ⟨false, 45 :: decimal n, .fin true n 0⟩

/-- F15: `%#x` of 0 prints `0x0`, C prints `0` -/
theorem sprintf_is_c_fails : ¬ SprintfIsC := by
  intro h
  have := h dg0 false ⟨[35], .absent, .absent, 120⟩ [num 0] [48] (by decide) (by decide)
    (by intro w p; cases w <;> cases p <;> simp [InCDomain, inCDomain, resolveSpec, goFlags] <;> split <;> simp)
  revert this; decide

/-- F15, the other members: `%#.0o`, `%+.0d` of 0 -/
theorem sprintf_is_c_fails_F15_prec0 :
    awkSprintf dg0 false ([37, 35, 46, 48, 111] /- "%#.0o" -/) [num 0] = .ok [] ∧ cPrintf dg0 false ⟨[35], .absent, .lit [48], 111⟩ [num 0] = some [48] ∧
    awkSprintf dg0 false ([37, 43, 46, 48, 100] /- "%+.0d" -/) [num 0] = .ok [] ∧ cPrintf dg0 false ⟨[43], .absent, .lit [48], 100⟩ [num 0] = some [43] := by decide

/-- F27: an infinity under `%f` prints `+Inf`, C prints `inf` -/
theorem sprintf_is_c_fails_F27 :
    awkSprintf dg0 false ([37, 102] /- "%f" -/) [⟨false, [105, 110, 102] /- "inf" -/, .inf false⟩] = .ok ([43, 73, 110, 102] /- "+Inf" -/) ∧
    cPrintf dg0 false ⟨[], .absent, .absent, 102⟩ [⟨false, [105, 110, 102] /- "inf" -/, .inf false⟩] = some ([105, 110, 102] /- "inf" -/) := by decide

/-- G09-1: `%#08x` of 255 is two characters too wide -/
theorem sprintf_is_c_fails_G09_1 :
    awkSprintf dg0 false ([37, 35, 48, 56, 120] /- "%#08x" -/) [num 255] = .ok ([48, 120, 48, 48, 48, 48, 48, 48, 102, 102] /- "0x000000ff" -/) ∧
    cPrintf dg0 false ⟨[35, 48], .lit [56], .absent, 120⟩ [num 255] = some ([48, 120, 48, 48, 48, 48, 102, 102] /- "0x0000ff" -/) := by decide

/-- G09-2: a negative `*` precision makes `fmt` print its `%!(BADPREC)` text -/
theorem sprintf_is_c_fails_G09_2 :
    awkSprintf dg0 false ([37, 46, 42, 100] /- "%.*d" -/) [negNum 1, num 5] = .ok ([37, 33, 40, 66, 65, 68, 80, 82, 69, 67, 41, 53] /- "%!(BADPREC)5" -/) ∧
    cPrintf dg0 false ⟨[], .absent, .star, 100⟩ [negNum 1, num 5] = some ([53] /- "5" -/) := by decide

/-! ### the integer conversions `d i o u x X` -/

/-- C's base / case / signedness of an integer verb -/
def intVerb (verb : UInt8) : Option (Bool × Bool × Bool × Bool × Nat) :=   -- signed, oct, hex, upper, base
  if verb = 100 || verb = 105 then some (true, false, false, false, 10)
  else if verb = 117 then some (false, false, false, false, 10)
  else if verb = 111 then some (false, true, false, false, 8)
  else if verb = 120 then some (false, false, true, false, 16)
  else if verb = 88 then some (false, false, true, true, 16)
  else none

/-- `sprintf_is_c` for `d i`: in the C domain and outside F15, what `fmt.Sprintf("%…d", int64)` produces is C's `%…d`/`%…i` of
the same integer, for every flag set, width, precision and value -/
theorem sprintf_is_c_partial_signed (dg : DigitGen) (cs : CSpec) (v : Int)
    (hverb : cs.verb = 100 ∨ cs.verb = 105) (hdom : InCDomain cs)
    (hx : ¬ IntExcluded cs (decide (v < 0)) v.natAbs) :
    goFormat dg ⟨cs.fl, cs.width, cs.prec, 100⟩ (.i64 v) = cFormat dg cs (.int v) :=
  conv_signed dg cs v hverb hdom hx

/-- `sprintf_is_c` for `o u x X` (the argument is `uint64(int64(x))`): outside F15 and G09-1 -/
theorem sprintf_is_c_partial_unsigned (dg : DigitGen) (cs : CSpec) (u : Nat) (g : UInt8)
    (hverb : (cs.verb = 117 ∧ g = 100) ∨ (cs.verb = 111 ∧ g = 111) ∨ (cs.verb = 120 ∧ g = 120) ∨ (cs.verb = 88 ∧ g = 88))
    (hdom : InCDomain cs) (hx : ¬ IntExcluded cs false u) :
    goFormat dg ⟨cs.fl, cs.width, cs.prec, g⟩ (.u64 u) = cFormat dg cs (.uint u) :=
  conv_unsigned dg cs u g hverb hdom hx

example : InCDomain ⟨{ plus := true, zero := true }, some 8, none, 100⟩ ∧ ¬ IntExcluded ⟨{ plus := true, zero := true }, some 8, none, 100⟩ false 42 := by
  refine ⟨by decide, ?_⟩; simp [IntExcluded]
example : goFormat dg0 ⟨{ plus := true, zero := true }, some 8, none, 100⟩ (.i64 42) = some ([43, 48, 48, 48, 48, 48, 52, 50] /- "+0000042" -/) := by decide
example : InCDomain ⟨{ sharp := true }, some 6, some 3, 111⟩ ∧ ¬ IntExcluded ⟨{ sharp := true }, some 6, some 3, 111⟩ false 8 := by
  refine ⟨by decide, ?_⟩; simp [IntExcluded]

/-! ### `s` and `c` -/

/-- `%s` (and its width/precision/`-`) is C's for ASCII text (C counts bytes, Go counts runes) -/
theorem sprintf_is_c_partial_str (dg : DigitGen) (cs : CSpec) (s : Bytes)
    (hverb : cs.verb = 115) (hdom : InCDomain cs) (hascii : AllAscii s) :
    goFormat dg ⟨cs.fl, cs.width, cs.prec, 115⟩ (.str s) = cFormat dg cs (.str s) :=
  conv_str dg cs s hverb hdom hascii

/-- `%c` (rewritten to `%s` of the character's bytes): the character padded to the width; a multi-byte character only
without width, or when Go counts it as one rune -/
theorem sprintf_is_c_partial_chr (dg : DigitGen) (cs : CSpec) (c : Bytes)
    (hverb : cs.verb = 99) (hdom : InCDomain cs) (hone : runeCount c = 1 ∨ cs.width = none) :
    goFormat dg ⟨cs.fl, cs.width, cs.prec, 115⟩ (.bytes c) = cFormat dg cs (.chr c) :=
  conv_chr dg cs c hverb hdom hone

/-- the `%c` argument of a number in byte mode is one byte: the character with that code modulo 256 -/
theorem chr_of_number_is_one_byte (a : Arg) (h : a.isStr = false) :
    ∃ b, charBytes false a = [b] ∧ runeCount (charBytes false a) = 1 := by
  refine ⟨UInt8.ofNat ((toInt32 a.n) % 256).toNat, ?_, ?_⟩ <;> simp [charBytes, h, runeCount_single]

/-- … and of a string its first byte (NUL for the empty string) -/
theorem chr_of_string_is_first_byte (a : Arg) (h : a.isStr = true) :
    charBytes false a = [a.s.headD 0] := by
  cases hs : a.s <;> simp [charBytes, h, hs]

example : goFormat dg0 ⟨{ minus := true }, some 3, none, 115⟩ (.bytes [65]) = some ([65, 32, 32] /- "A  " -/) := by decide

/-! ### character mode (`-c` / `Config.Chars`): `%c` of a string is its first character; `%s` counts characters

`wellFormedSeq` (GoawkModel/C09Chars.lean) is table 3-7 of the Unicode Standard, stated independently of `runeSize` (the model of
`utf8.DecodeRuneInString` that `charBytes` uses). -/

/-- **`%c` of a string in character mode is its first character**: the well-formed UTF-8 sequence the string starts with, and
the single first byte when no prefix of the string is well formed (stray continuation byte, truncated sequence, overlong form,
surrogate, lead byte above 0xF4, Latin-1 text). In particular a lead byte never drags the following bytes along. -/
theorem chars_chr_is_first_char (a : Arg) (h : a.isStr = true) (hne : a.s ≠ []) :
    IsFirstChar a.s (charBytes true a) := by
  cases hs : a.s with
  | nil => exact absurd hs hne
  | cons b0 rest =>
    have : charBytes true a = (b0 :: rest).take (runeSize (b0 :: rest)) := by simp [charBytes, h, hs]
    rw [this]; exact take_runeSize_isFirstChar b0 rest

/-- … spelled out: a string that starts with a well-formed sequence `p` prints exactly `p` -/
theorem chars_chr_wellformed (a : Arg) (h : a.isStr = true) (p rest : Bytes) (hs : a.s = p ++ rest) (hw : wellFormedSeq p = true) :
    charBytes true a = p := by
  have hsz := runeSize_of_wellFormed p rest hw
  cases hp : p with
  | nil => rw [hp] at hw; simp [wellFormedSeq] at hw
  | cons b0 p' =>
    rw [hp] at hs hsz
    simp only [List.cons_append] at hs hsz
    simp only [charBytes, h, hs, if_true, hsz]
    simp

/-- … and a string none of whose prefixes is well formed prints its first byte alone, whatever follows -/
theorem chars_chr_illformed (a : Arg) (h : a.isStr = true) (b : UInt8) (rest : Bytes) (hs : a.s = b :: rest)
    (hno : ∀ p q, a.s = p ++ q → wellFormedSeq p = false) : charBytes true a = [b] := by
  have hno' : ∀ k, wellFormedSeq ((b :: rest).take k) = false := fun k => hno _ _ (by rw [hs, List.take_append_drop])
  simp [charBytes, h, hs, runeSize_of_illFormed b rest hno']

/-- the character `%c` prints is one column of the field width, multi-byte or ill-formed alike: `fmt` pads it as C pads `%c` -/
theorem chars_chr_one_column (dg : DigitGen) (cs : CSpec) (a : Arg) (h : a.isStr = true) (hne : a.s ≠ [])
    (hverb : cs.verb = 99) (hdom : InCDomain cs) :
    runeCount (charBytes true a) = 1 ∧
    goFormat dg ⟨cs.fl, cs.width, cs.prec, 115⟩ (.bytes (charBytes true a)) = cFormat dg cs (.chr (charBytes true a)) := by
  have h1 : runeCount (charBytes true a) = 1 := by
    cases hs : a.s with
    | nil => exact absurd hs hne
    | cons b0 rest =>
      have : charBytes true a = (b0 :: rest).take (runeSize (b0 :: rest)) := by simp [charBytes, h, hs]
      rw [this]; exact runeCount_first_char b0 rest
  exact ⟨h1, conv_chr dg cs _ hverb hdom (Or.inl h1)⟩

/-- Latin-1 `é t é` (0xE9 is a 3-byte lead, `t` is no continuation byte): one byte; `€` (E2 82 AC): three; a truncated `€`
(E2 82): one; the overlong C0 80: one -/
example : charBytes true ⟨true, [0xE9, 0x74, 0xE9], .nan false⟩ = [0xE9] ∧ charBytes true ⟨true, [0xE2, 0x82, 0xAC, 0x41], .nan false⟩ = [0xE2, 0x82, 0xAC]
    ∧ charBytes true ⟨true, [0xE2, 0x82], .nan false⟩ = [0xE2] ∧ charBytes true ⟨true, [0xC0, 0x80], .nan false⟩ = [0xC0] := by decide
example : wellFormedSeq [0xE2, 0x82, 0xAC] = true ∧ wellFormedSeq [0xC0, 0x80] = false ∧ wellFormedSeq [0xED, 0xA0, 0x80] = false
    ∧ wellFormedSeq [0xF4, 0x90, 0x80, 0x80] = false ∧ wellFormedSeq [0xE9] = false := by decide

/-- **`%c` of a number in character mode is the character with that code**: for a Unicode scalar value `n` the bytes are the
well-formed sequence whose code point is `n`; for every number they are one well-formed sequence, one column wide -/
theorem chars_chr_of_number (a : Arg) (h : a.isStr = false) :
    wellFormedSeq (charBytes true a) = true ∧ runeCount (charBytes true a) = 1 ∧
    ∀ n : Nat, toInt32 a.n = (n : Int) → IsScalar n → codeOf (charBytes true a) = n := by
  have hc : charBytes true a = encodeRune (toInt32 a.n) := by simp [charBytes, h]
  rw [hc]
  refine ⟨encodeRune_wellFormed _, runeCount_wellFormed _ (encodeRune_wellFormed _), ?_⟩
  intro n hn hs
  rw [hn]; exact codeOf_encodeRune n hs

/-- 233 → `é` (C3 A9), 8364 → `€` (E2 82 AC), 128512 → F0 9F 98 80 -/
example : charBytes true ⟨false, [], .fin false 233 0⟩ = [0xC3, 0xA9] ∧ charBytes true ⟨false, [], .fin false 8364 0⟩ = [0xE2, 0x82, 0xAC]
    ∧ charBytes true ⟨false, [], .fin false 128512 0⟩ = [0xF0, 0x9F, 0x98, 0x80] ∧ IsScalar 8364 := by
  refine ⟨by decide, by decide, by decide, ?_⟩
  unfold IsScalar; omega

/-- **`%s` in character mode-counting** (`fmt` always counts runes): the precision keeps the first `p` characters whole, the
width pads to that many characters — `cFmtStrChars`, C's `%s` rule read on characters (`charsOf`: well-formed sequences, every
other byte a character by itself) instead of bytes -/
theorem sprintf_str_counts_characters (dg : DigitGen) (fl : Flags) (wid prec : Option Nat) (s : Bytes) (hz : fl.zero = false) :
    goFormat dg ⟨fl, wid, prec, 115⟩ (.str s) = some (cFmtStrChars ⟨fl, wid, prec, 115⟩ s) := by
  simp [goFormat, goFmtS_is_chars fl wid prec s hz]

/-- the characters are a partition of the string, `fmt`'s rune count is their number, and each one is a first character -/
theorem chars_partition (s : Bytes) :
    (charsOf s).flatten = s ∧ runeCount s = (charsOf s).length ∧ ∀ n, truncRunes n s = ((charsOf s).take n).flatten :=
  ⟨charsOf_flatten s.length s (Nat.le_refl _), runeCount_eq_chars s, fun n => truncRunes_eq_chars n s⟩

/-- `%.2s` of `é € x` keeps `é €` (5 bytes); `%4.1s` of the ill-formed E2 82 41 keeps the lone lead byte, padded to 4 columns -/
example : cFmtStrChars ⟨{}, none, some 2, 115⟩ [0xC3, 0xA9, 0xE2, 0x82, 0xAC, 0x78] = [0xC3, 0xA9, 0xE2, 0x82, 0xAC]
    ∧ cFmtStrChars ⟨{}, some 4, some 1, 115⟩ [0xE2, 0x82, 0x41] = [32, 32, 32, 0xE2] := by decide

/-! ### `e E f g G`, finite values -/

/-- sign, `+`/space, `0` and `-` padding and width of the floating conversions are C's for every finite value; the precision is
the explicit one, else 6 (GoAWK inserts `.6` for `g G`, `fmt` defaults `e E f` to 6) -/
theorem sprintf_is_c_partial_float (dg : DigitGen) (cs : CSpec) (neg : Bool) (m : Nat) (e : Int)
    (hverb : cs.verb = 101 ∨ cs.verb = 69 ∨ cs.verb = 102 ∨ cs.verb = 103 ∨ cs.verb = 71)
    (hascii : AsciiDigits dg) (hsharp : cs.fl.sharp = true → SharpCoherent dg) :
    goFormat dg ⟨cs.fl, cs.width, some (cs.prec.getD 6), cs.verb⟩ (.f64 (.fin neg m e)) = cFormat dg cs (.dbl (.fin neg m e)) :=
  conv_float dg cs neg m e hverb hascii hsharp

example : AsciiDigits dg0 := by intro _ _ _ _ _ x hx; simp [dg0] at hx; rw [hx]; decide

/-- `addDefaultPrecisionG` gives `%g` the precision 6 (F14, fixed) and leaves an explicit precision and the other verbs alone -/
theorem default_precision_g :
    addPrecG ([37, 103] /- "%g" -/) = [37, 46, 54, 103] /- "%.6g" -/ ∧ addPrecG ([37, 45, 56, 71, 124, 37, 46, 51, 103, 124, 37, 101, 124, 37, 37, 103] /- "%-8G|%.3g|%e|%%g" -/) = [37, 45, 56, 46, 54, 71, 124, 37, 46, 51, 103, 124, 37, 101, 124, 37, 37, 103] /- "%-8.6G|%.3g|%e|%%g" -/ := by decide

/-! ### errors, `%%`, `*` -/

/-- too few arguments is an error naming both counts — never output -/
theorem too_few_args_error (dg : DigitGen) (chars : Bool) (fmt gofmt : Bytes) (types : List UInt8) (args : List Arg)
    (hp : parseFmtTypes fmt = .ok (gofmt, types)) (hlt : args.length < types.length) :
    awkSprintf dg chars fmt args = .err (.argCount args.length types.length) := by
  simp [awkSprintf, hp, hlt]

/-- an unknown conversion character is an error, whatever follows and whatever the arguments -/
theorem unknown_verb_error (dg : DigitGen) (chars : Bool) (body : Bytes) (v : UInt8) (rest : Bytes) (args : List Arg)
    (hb : ∀ c ∈ body, isSpecChar c = true) (hv : isSpecChar v = false) (hne : body = [] → v ≠ 37)
    (hunknown : lookupVerb v = none) :
    awkSprintf dg chars (37 :: (body ++ v :: rest)) args = .err (.badVerb v) := by
  unfold awkSprintf parseFmtTypes
  rw [List.length_cons, parseFmtAux_spec _ body v rest hb hv hne, hunknown]

/-- a format that ends inside a specification is an error -/
theorem missing_verb_error (dg : DigitGen) (chars : Bool) (body : Bytes) (args : List Arg)
    (hb : ∀ c ∈ body, isSpecChar c = true) :
    awkSprintf dg chars (37 :: body) args = .err .noVerb := by
  have hall : ∀ (l : Bytes), (∀ c ∈ l, isSpecChar c = true) → l.dropWhile isSpecChar = [] := by
    intro l; induction l with
    | nil => intro _; rfl
    | cons x r ih => intro h; simp [List.dropWhile, h x (by simp), ih (fun c hc => h c (by simp [hc]))]
  have htw : body.dropWhile isSpecChar = [] := hall body hb
  cases body with
  | nil => simp [awkSprintf, parseFmtTypes, parseFmtAux]
  | cons b bs =>
    have hb37 : b ≠ 37 := isSpecChar_ne_pct b (hb b (by simp))
    simp [awkSprintf, parseFmtTypes, parseFmtAux, hb37, htw]

example : lookupVerb 122 = none ∧ isSpecChar 122 = false := by decide

/-- `%%` is a percent sign and takes no argument -/
theorem percent_percent (dg : DigitGen) (chars : Bool) (args : List Arg) :
    awkSprintf dg chars [37, 37] args = .ok [37] := by
  have h1 : parseFmtTypes [37, 37] = .ok ([37, 37], []) := by rfl
  simp only [awkSprintf, h1]
  simp [convertArgs]
  rfl

/-- each `*` takes one argument (converted like `%d`) before the value: `%<flags>*<verb>` with a single argument is the
"got 1 args, expected 2" error -/
theorem star_width_consumes_arg (dg : DigitGen) (chars : Bool) (flags : Bytes) (verb t g : UInt8) (a : Arg)
    (hf : ∀ c ∈ flags, isGoFlag c = true) (hvs : isSpecChar verb = false) (hv : lookupVerb verb = some (t, g)) :
    awkSprintf dg chars (37 :: ((flags ++ [42]) ++ verb :: [])) [a] = .err (.argCount 1 2) := by
  have hb : ∀ c ∈ flags ++ [42], isSpecChar c = true := by
    intro c hc
    rcases List.mem_append.mp hc with h | h
    · exact isGoFlag_isSpecChar c (hf c h)
    · simp at h; subst h; decide
  have hst : starTypes (flags ++ [42]) = [100] := by
    have : flags.filter (· == 42) = [] := by
      rw [List.filter_eq_nil_iff]; intro c hc; simpa using isGoFlag_ne_star c (hf c hc)
    simp [starTypes, List.filter_append, this]; decide
  unfold awkSprintf parseFmtTypes
  rw [List.length_cons, parseFmtAux_spec _ (flags ++ [42]) verb [] hb hvs (by simp), hv]
  simp [parseFmtAux_nil, hst]

/-- … and with both arguments the width is the first one: `%*d` of (5, 42) is `   42`; a negative one left-justifies -/
theorem star_width_value :
    awkSprintf dg0 false ([37, 42, 100] /- "%*d" -/) [num 5, num 42] = .ok ([32, 32, 32, 52, 50] /- "   42" -/) ∧
    awkSprintf dg0 false ([37, 42, 100, 124] /- "%*d|" -/) [negNum 5, num 42] = .ok ([52, 50, 32, 32, 32, 124] /- "42   |" -/) ∧
    awkSprintf dg0 false ([37, 46, 42, 100] /- "%.*d" -/) [num 4, num 42] = .ok ([48, 48, 52, 50] /- "0042" -/) := by decide

/-! ### print / OFMT -/

/-- `print` writes an integral number in the int64 range as a plain integer, whatever OFMT is -/
theorem print_integral (dg : DigitGen) (ofmt : Bytes) (neg : Bool) (m : Nat) (e : Int)
    (hint : e ≥ 0) (hrange : truncMag m e < two63) :
    numToStr dg ofmt (.fin neg m e) = .ok (if neg && truncMag m e ≠ 0 then 45 :: decimal (truncMag m e) else decimal (truncMag m e)) := by
  have h2 : truncMag m e ≤ two63 := Nat.le_of_lt hrange
  cases neg <;> simp [numToStr, hint, hrange, h2]

/-- … and every other finite number by formatting it with OFMT (through the same `fmt` machinery, `%g` defaulting to 6 digits) -/
theorem print_uses_ofmt (dg : DigitGen) (ofmt : Bytes) (neg : Bool) (m : Nat) (e : Int)
    (hfrac : e < 0 ∧ truncMag m e * 2 ^ (-e).toNat ≠ m) :
    numToStr dg ofmt (.fin neg m e) = goPrintf dg (addPrecG ofmt) [.f64 (.fin neg m e)] := by
  have h1 : ¬ e ≥ 0 := by omega
  simp [numToStr, h1, hfrac.2]

/-- with the default OFMT that is `%.6g` of the value -/
theorem print_default_ofmt (dg : DigitGen) (x : F64) :
    goPrintf dg (addPrecG ([37, 46, 54, 103] /- "%.6g" -/)) [.f64 x] = .ok (goFmtFloat dg {} none 6 103 x) := by
  have h : addPrecG ([37, 46, 54, 103] /- "%.6g" -/) = [37, 46, 54, 103] /- "%.6g" -/ := by decide
  rw [h]
  simp [goPrintf, goPrintfAux, goParseWidth, goParsePrec, Res.prepend, goFormat, isGoFlag, isDigit, numVal, litTooLarge, goFlags]

example : (-1 : Int) < 0 ∧ truncMag 3 (-1) * 2 ^ (1 : Nat) ≠ 3 := by decide

/-- **an integral number outside int64 never takes the integer path**: from 2^63 upward (and below -2^63) `print` formats with
OFMT — the digits of a wrapped or saturated int64 can never appear -/
theorem print_beyond_int64_uses_ofmt (dg : DigitGen) (ofmt : Bytes) (neg : Bool) (m : Nat) (e : Int)
    (hout : if neg then two63 < truncMag m e else two63 ≤ truncMag m e) :
    numToStr dg ofmt (.fin neg m e) = goPrintf dg (addPrecG ofmt) [.f64 (.fin neg m e)] := by
  cases neg with
  | false =>
    have h : ¬ truncMag m e < two63 := by simpa using hout
    simp [numToStr, h]
  | true =>
    have h : ¬ truncMag m e ≤ two63 := by simp at hout; omega
    simp [numToStr, h]

/-- every finite number is written either as its own integer (exactly when it is integral and inside int64: sign and the
decimal digits of its magnitude) or by OFMT — there is no third form -/
theorem print_is_integer_or_ofmt (dg : DigitGen) (ofmt : Bytes) (neg : Bool) (m : Nat) (e : Int) :
    ((e ≥ 0 ∨ truncMag m e * 2 ^ (-e).toNat = m) ∧ (if neg then truncMag m e ≤ two63 else truncMag m e < two63) ∧
      numToStr dg ofmt (.fin neg m e) = .ok (if neg && truncMag m e ≠ 0 then 45 :: decimal (truncMag m e) else decimal (truncMag m e))) ∨
    (¬ ((e ≥ 0 ∨ truncMag m e * 2 ^ (-e).toNat = m) ∧ (if neg then truncMag m e ≤ two63 else truncMag m e < two63)) ∧
      numToStr dg ofmt (.fin neg m e) = goPrintf dg (addPrecG ofmt) [.f64 (.fin neg m e)]) := by
  by_cases hi : (e ≥ 0 ∨ truncMag m e * 2 ^ (-e).toNat = m)
  · by_cases hr : (if neg then truncMag m e ≤ two63 else truncMag m e < two63)
    · left
      refine ⟨hi, hr, ?_⟩
      by_cases he : e ≥ 0
      · cases neg <;> simp_all [numToStr]
      · have hm : truncMag m e * 2 ^ (-e).toNat = m := hi.resolve_left he
        cases neg <;> simp_all [numToStr]
    · right
      refine ⟨fun h => hr h.2, ?_⟩
      cases neg
      · have h' : ¬ truncMag m e < two63 := by simpa using hr
        simp [numToStr, h']
      · have h' : ¬ truncMag m e ≤ two63 := by simpa using hr
        simp [numToStr, h']
  · right
    refine ⟨fun h => hi h.1, ?_⟩
    have he : ¬ e ≥ 0 := fun h => hi (Or.inl h)
    have hm : ¬ truncMag m e * 2 ^ (-e).toNat = m := fun h => hi (Or.inr h)
    simp [numToStr, he, hm]

/-- 2^63 (= 1·2^63, also the double nearest to the literal 9223372036854775807) goes to OFMT; -2^63 is an integer -/
example (dg : DigitGen) (ofmt : Bytes) : numToStr dg ofmt (.fin false 1 63) = goPrintf dg (addPrecG ofmt) [.f64 (.fin false 1 63)] :=
  print_beyond_int64_uses_ofmt dg ofmt false 1 63 (by decide)
example : numToStr dg0 [] (.fin true 1 63) = .ok ([45, 57, 50, 50, 51, 51, 55, 50, 48, 51, 54, 56, 53, 52, 55, 55, 53, 56, 48, 56] /- "-9223372036854775808" -/) := by
  simp [numToStr, truncMag, two63, decimal, natDigits, natDigitsAux, digitChar]

/-! ### print in every output mode converts with OFMT; everything else converts with CONVFMT -/

/-- in the default, CSV and TSV output modes alike, what `print` writes is determined by the texts `value.str(OFMT)` of its
arguments (numbers: integer or OFMT; strings and fields: their text) — CONVFMT plays no part -/
theorem print_converts_with_ofmt_every_mode (dg : DigitGen) (mode : OutMode) (ofmt ofs ors : Bytes) (args : List Val) (texts : List Bytes)
    (h : args.map (valToStr dg ofmt) = texts.map Res.ok) :
    printArgs dg mode ofmt ofs ors args = emitRecord mode ofs ors texts := by
  have hc : ∀ ts : List Bytes, collectTexts (ts.map Res.ok) = .ok ts := by
    intro ts; induction ts with
    | nil => rfl
    | cons t r ih => simp [collectTexts, ih]
  simp [printArgs, h, hc]

/-- a string or field argument is written as its text, a number through `numToStr OFMT` (see `print_integral`, `print_uses_ofmt`) -/
theorem print_arg_text (dg : DigitGen) (ofmt : Bytes) (s : Bytes) (x : F64) :
    valToStr dg ofmt (.str s) = .ok s ∧ valToStr dg ofmt (.num x) = numToStr dg ofmt x := ⟨rfl, rfl⟩

/-- the non-print conversion is the same function at CONVFMT -/
theorem tostring_uses_convfmt (dg : DigitGen) (convfmt : Bytes) (v : Val) :
    toStringConv dg convfmt v = valToStr dg convfmt v := rfl

/-- OFMT `%.2f`, CONVFMT irrelevant: 2.5 (= 5·2⁻¹) and the field text `x` in CSV mode give `2.50,x` (digit text from the generator) -/
example : printArgs ⟨fun _ _ _ _ _ => [50, 46, 53, 48]⟩ .csv [37, 46, 50, 102] [32] [10] [.num (.fin false 5 (-1)), .str [120]]
    = .ok [50, 46, 53, 48, 44, 120, 10] := by decide

/-! ### whole format strings: the scanners composed with the per-conversion theorems -/

/-- **Composed statement.** A format given as segments — literal text without `%`, `%%`, and conversion specifications
(`SegOK`: flags from `-+ #0`, width and precision literal or `*`, verb among `d i o u x X c s e E f g G`) — is rendered to text
and run through the whole pipeline (`parseFmtTypes` incl. `addDefaultPrecisionG`, argument conversion, `fmt`'s `doPrintf`). If
the arguments suffice and every conversion with the arguments it consumes is inside the claim (`AllConvOK`: C domain, outside
F15 / F27 / G09-1, `*` values as in G09-2 / G09-3), the result is exactly C's: the literal texts, `%` for `%%`, and
`cFormat spec (awkConvert arg)` for each conversion, arguments — including the `*` ones — consumed in order. -/
theorem sprintf_is_c_composed (dg : DigitGen) (chars : Bool) (segs : List Seg) (args : List Arg)
    (hok : ∀ s ∈ segs, SegOK s) (hall : AllConvOK dg chars segs args) (hlen : needSegs segs ≤ args.length) :
    ∃ out, cSegs dg chars segs args = some out ∧ awkSprintf dg chars (renderSegs segs) args = .ok out := by
  have htl := typesOf_length segs
  obtain ⟨gargs, hg⟩ := convertArgs_total chars (typesOf segs) args (typesOf_ok segs hok) (by omega)
  obtain ⟨out, hc, hgo⟩ := go_segs dg chars segs args gargs ((goText2 segs).length + 1) hok hall hg (by omega)
  refine ⟨out, hc, ?_⟩
  have hnot : ¬ (args.length < (typesOf segs).length) := by omega
  simp [awkSprintf, parseFmtTypes_segs segs hok, hnot, hg, goPrintf, hgo]

/-- … and it is the "got n args, expected m" error exactly when the arguments run out (m counts every `*` and every
conversion), whatever the conversions are -/
theorem sprintf_composed_too_few (dg : DigitGen) (chars : Bool) (segs : List Seg) (args : List Arg)
    (hok : ∀ s ∈ segs, SegOK s) :
    (args.length < needSegs segs ↔ awkSprintf dg chars (renderSegs segs) args = .err (.argCount args.length (needSegs segs))) ∧
    (args.length < needSegs segs ∨ ∃ gargs, awkSprintf dg chars (renderSegs segs) args = goPrintf dg (goText2 segs) gargs) := by
  have htl := typesOf_length segs
  constructor
  · constructor
    · intro h
      simp [awkSprintf, parseFmtTypes_segs segs hok, htl, h]
    · intro h
      by_cases hlt : args.length < needSegs segs
      · exact hlt
      · exfalso
        obtain ⟨gargs, hg⟩ := convertArgs_total chars (typesOf segs) args (typesOf_ok segs hok) (by omega)
        have hnot : ¬ (args.length < (typesOf segs).length) := by omega
        simp only [awkSprintf, parseFmtTypes_segs segs hok, gt_iff_lt, hnot, if_false, hg] at h
        -- `doPrintf` never returns an AWK error
        have hne : ∀ (fuel : Nat) (f : Bytes) (ga : List GoArg) (e : FmtErr), goPrintfAux dg fuel f ga ≠ .err e := by
          intro fuel
          induction fuel with
          | zero => intro f ga e; simp [goPrintfAux]
          | succ n ih =>
            intro f ga e
            have hp : ∀ (r : Res) (pre : Bytes), (∀ e, r ≠ .err e) → r.prepend pre ≠ .err e := by
              intro r pre hr; cases r <;> simp [Res.prepend]
              exact fun h => hr _ (by rw [h])
            cases f with
            | nil => cases ga <;> simp [goPrintfAux]
            | cons c rest =>
              simp only [goPrintfAux]
              split
              · exact hp _ _ (fun e => ih _ _ e)
              · split
                · simp
                · split
                  · simp
                  · split
                    · simp
                    · split
                      · exact hp _ _ (fun e => ih _ _ e)
                      · split
                        · simp
                        · split
                          · simp
                          · split
                            · simp
                            · exact hp _ _ (fun e => ih _ _ e)
        exact hne _ _ _ _ h
  · by_cases hlt : args.length < needSegs segs
    · exact Or.inl hlt
    · right
      obtain ⟨gargs, hg⟩ := convertArgs_total chars (typesOf segs) args (typesOf_ok segs hok) (by omega)
      have hnot : ¬ (args.length < (typesOf segs).length) := by omega
      exact ⟨gargs, by simp [awkSprintf, parseFmtTypes_segs segs hok, hnot, hg]⟩

/-- non-vacuity: `[%5d|%-*s|%%|%.3g]` with arguments 42, 6, "ab", 2.5 -/
example : (∀ s ∈ [Seg.lit [91], .conv ⟨[], .lit [53], .absent, 100⟩, .lit [124], .conv ⟨[45], .star, .absent, 115⟩, .lit [124], .pct,
      .conv ⟨[], .absent, .lit [51], 103⟩, .lit [93]], SegOK s) := by
  intro s hs
  simp only [List.mem_cons, List.not_mem_nil, or_false] at hs
  rcases hs with rfl | rfl | rfl | rfl | rfl | rfl | rfl | rfl <;>
    first
    | (intro c hc; simp at hc; subst hc; decide)
    | trivial
    | exact ⟨wf_of_wellFormed _ (by decide), by decide⟩

example : awkSprintf dg0 false
    (renderSegs [Seg.lit [91], .conv ⟨[], .lit [53], .absent, 100⟩, .lit [124], .conv ⟨[45], .star, .absent, 115⟩, .lit [124], .pct, .lit [93]])
    [num 42, num 6, ⟨true, [97, 98], .fin false 0 0⟩] = .ok [91, 32, 32, 32, 52, 50, 124, 97, 98, 32, 32, 32, 32, 124, 37, 93] /- "[   42|ab    |%]" -/ ∧
  cSegs dg0 false
    [Seg.lit [91], .conv ⟨[], .lit [53], .absent, 100⟩, .lit [124], .conv ⟨[45], .star, .absent, 115⟩, .lit [124], .pct, .lit [93]]
    [num 42, num 6, ⟨true, [97, 98], .fin false 0 0⟩] = some [91, 32, 32, 32, 52, 50, 124, 97, 98, 32, 32, 32, 32, 124, 37, 93] := by decide

/-- non-vacuity of `AllConvOK`: `%5d` applied to 42 is inside the claim -/
example : AllConvOK dg0 false [.conv ⟨[], .lit [53], .absent, 100⟩] [num 42] := by
  show ∃ rest, ConvOK dg0 false _ _ rest ∧ True
  refine ⟨[], ⟨some 5, [num 42], none, num 42, .int 42, by decide, by decide, by simp, by simp, ?_, by simp, by decide, by decide, ?_⟩, trivial⟩
  · intro ds h; simp at h; subst h; decide
  · simp [ArgOK, IntExcluded, resolveSpec]

/-! ### `#` with the floating conversions: `fmt`'s post-processing against C's rule -/

/-- C's `#` rule ("always a decimal point; for g and G trailing zeros are not removed", so the `#` text of `g` has exactly
P significant digits) as a relation `SharpShape verb prec plain sharp` between the text without and with `#`: whenever the two
texts are so related, what `fmt.fmtFloat` rebuilds from the plain text (`goSharpFloat`: count the significant digits, append the
point and the missing zeros before the exponent) is the `#` text — for every precision, digit string and exponent. -/
theorem go_sharp_is_c_rule (verb : UInt8) (prec : Nat) (plain sharp : Bytes) (h : SharpShape verb prec plain sharp) :
    goSharpFloat verb prec plain = sharp := goSharp_of_shape verb prec plain sharp h

/-- hence the assumption `SharpCoherent` of `sprintf_is_c_partial_float` / `AllConvOK` holds for every digit generator that
follows C's rule -/
theorem sharp_coherent_of_c_rule (dg : DigitGen) (h : CSharpRule dg) : SharpCoherent dg := sharpCoherent_of_rule dg h

/-- not proved (checked by correspondence and against libc only): the exact digit generator of the driver follows C's rule -/
def ExactGenFollowsCRule : Prop := CSharpRule exactGen

/-- `%#g` of 1e6: plain `1e+06`, with `#` `1.00000e+06`; `%#.0e` of 3: `3e+00` / `3.e+00`; `%#g` of 0: `0` / `0.00000` -/
example : SharpShape 103 6 [49, 101, 43, 48, 54] [49, 46, 48, 48, 48, 48, 48, 101, 43, 48, 54] :=
  Or.inr (Or.inl ⟨by decide, [49], [], 5, [101, 43, 48, 54], (by intro c hc; simp at hc; subst hc; decide), (by intro c hc; simp at hc), Or.inr ⟨101, [43, 48, 54], rfl, Or.inl rfl⟩,
    by decide, by decide, by decide, by decide⟩)
example : goSharpFloat 101 0 [51, 101, 43, 48, 48] = [51, 46, 101, 43, 48, 48] ∧ goSharpFloat 103 6 [48] = [48, 46, 48, 48, 48, 48, 48] := by decide

/-! ### the format cache is transparent -/

/-- **Cache transparency.** On an interpreter whose format cache holds only entries produced by parsing (`CacheOK`; true of the
empty cache of a new interpreter and preserved by every use), `sprintf` with the cache returns exactly what the cache-less
`awkSprintf` computes — on a hit as on a miss, including the parse error (never stored), and including the argument-count
check, which is made after the lookup on every use — and leaves the cache `CacheOK`. -/
theorem format_cache_transparent (dg : DigitGen) (chars : Bool) (c : FmtCache) (fmt : Bytes) (args : List Arg) (hc : CacheOK c) :
    (awkSprintfC dg chars c fmt args).1 = awkSprintf dg chars fmt args ∧ CacheOK (awkSprintfC dg chars c fmt args).2 :=
  sprintf_cache_step dg chars c fmt args hc

/-- hence any sequence of uses on one interpreter, starting from a new one — repeated formats, varying arguments, any number
of `Execute` calls, below or above the cache limit — gives use by use what each use gives on its own -/
theorem repeated_use_is_single_use (dg : DigitGen) (chars : Bool) (uses : List (Bytes × List Arg)) :
    runUses dg chars [] uses = uses.map (fun u => awkSprintf dg chars u.1 u.2) :=
  runUses_transparent dg chars uses [] cacheOK_nil

/-- an unknown conversion is an error on the first and on every later use; too few arguments after a use with enough is
the argument-count error -/
example : runUses dg0 false [] [([37, 122], [num 1]), ([37, 122], [num 1]), ([37, 100, 37, 100], [num 1, num 2]), ([37, 100, 37, 100], [num 1])]
    = [.err (.badVerb 122), .err (.badVerb 122), .ok [49, 50], .err (.argCount 1 2)] := by decide

end GoawkModel.C09.Props

/-! ## Pinned source text (regenerated tie; extract/pins.go, tools/repin.py)
An edit of one of these functions in /repo breaks the matching obligation: the model below was written from the text
in `Proofs.C09Pins` and has to be compared with the new text before it is re-pinned. -/
namespace GoawkModel.Pins.C09
theorem pin_parseFmtTypes : Generated.C09Pins.parseFmtTypes = Expected.parseFmtTypes := rfl
theorem pin_sprintf : Generated.C09Pins.sprintf = Expected.sprintf := rfl
theorem pin_list : Generated.C09Pins.pinned = Expected.pinned := rfl
end GoawkModel.Pins.C09
-- end of pinned source text
