import GoawkModel.C09
import GoawkModel.C09Spec
import Proofs.C09
import Proofs.C09Scan
/-! Property theorems for C09 (see /verif/DESIGN.md). Only property theorems and non-vacuity examples live here.

`goFormat` is what `fmt.Sprintf` does with one conversion GoAWK hands it, `cFormat` is ISO C `printf` for the argument converted
the AWK way; the digit generator of floating conversions is a shared parameter. The full statement `SprintfIsC` is false of the
current code (findings F15, F27, G09-1, G09-2): the `_fails` theorems carry the witnesses, `sprintf_is_c_partial_*` are the
per-family theorems outside those classes. -/
namespace GoawkModel.C09.Props
open GoawkModel GoawkModel.C09

/-- the generated verb-rewrite table is the one the proofs were made for -/
theorem gen_matches :
    Generated.C09Verbs.verbTable =
      [(115, 115, 115), (100, 100, 100), (111, 117, 111), (120, 117, 120), (88, 117, 88), (105, 100, 100), (102, 102, 102),
       (101, 102, 101), (69, 102, 69), (103, 102, 103), (71, 102, 71), (97, 102, 120), (65, 102, 88), (117, 117, 100), (99, 99, 115)] ∧
    Generated.C09Verbs.specChars = [32, 46, 45, 43, 42, 35, 48, 49, 50, 51, 52, 53, 54, 55, 56, 57] ∧
    Generated.C09Verbs.specCharsG = Generated.C09Verbs.specChars ∧
    Generated.C09Verbs.starType = 100 ∧ Generated.C09Verbs.precGVerbs = [103, 71] ∧ Generated.C09Verbs.precGInsert = [46, 54] ∧
    Generated.C09Verbs.convLetters = [115, 100, 102, 117, 99] := by decide

/-- the full statement: every conversion specification in the C domain, applied to any arguments, gives what C gives -/
def SprintfIsC : Prop :=
  ∀ (dg : DigitGen) (chars : Bool) (sp : Spec) (args : List Arg) (out : Bytes),
    sp.wellFormed = true → cPrintf dg chars sp args = some out →
    (∀ w p, InCDomain (resolveSpec (goFlags sp.flags) w p sp.verb)) →
    awkSprintf dg chars sp.render args = .ok out

def dg0 : DigitGen := ⟨fun _ _ _ _ _ => [48]⟩
def num (n : Nat) : Arg := ⟨false, decimal n, .fin false n 0⟩
def negNum (n : Nat) : Arg := ⟨false, 45 :: decimal n, .fin true n 0⟩

/-- F15: `%#x` of 0 prints `0x0`, C prints `0` -/
theorem sprintf_is_c_fails : ¬ SprintfIsC := by
  intro h
  have := h dg0 false ⟨[35], .absent, .absent, 120⟩ [num 0] [48] (by decide) (by decide)
    (by intro w p; cases w <;> cases p <;> simp [InCDomain, inCDomain, resolveSpec, goFlags] <;> split <;> simp)
  revert this; decide

/-- F15, the other members: `%#.0o`, `%+.0d` of 0 -/
theorem sprintf_is_c_fails_F15_prec0 :
    awkSprintf dg0 false ([37, 35, 46, 48, 111] /- "%#.0o" -/) [num 0] = .ok [] ∧ cPrintf dg0 false ⟨[35], .absent, .lit [48], 111⟩ [num 0] = some [48] ∧
    awkSprintf dg0 false ([37, 43, 46, 48, 100] /- "%+.0d" -/) [num 0] = .ok [] ∧ cPrintf dg0 false ⟨[43], .absent, .lit [48], 100⟩ [num 0] = some [43] := by decide

/-- F27: an infinity under `%f` prints `+Inf`, C prints `inf` -/
theorem sprintf_is_c_fails_F27 :
    awkSprintf dg0 false ([37, 102] /- "%f" -/) [⟨false, [105, 110, 102] /- "inf" -/, .inf false⟩] = .ok ([43, 73, 110, 102] /- "+Inf" -/) ∧
    cPrintf dg0 false ⟨[], .absent, .absent, 102⟩ [⟨false, [105, 110, 102] /- "inf" -/, .inf false⟩] = some ([105, 110, 102] /- "inf" -/) := by decide

/-- G09-1: `%#08x` of 255 is two characters too wide -/
theorem sprintf_is_c_fails_G09_1 :
    awkSprintf dg0 false ([37, 35, 48, 56, 120] /- "%#08x" -/) [num 255] = .ok ([48, 120, 48, 48, 48, 48, 48, 48, 102, 102] /- "0x000000ff" -/) ∧
    cPrintf dg0 false ⟨[35, 48], .lit [56], .absent, 120⟩ [num 255] = some ([48, 120, 48, 48, 48, 48, 102, 102] /- "0x0000ff" -/) := by decide

/-- G09-2: a negative `*` precision makes `fmt` print its `%!(BADPREC)` text -/
theorem sprintf_is_c_fails_G09_2 :
    awkSprintf dg0 false ([37, 46, 42, 100] /- "%.*d" -/) [negNum 1, num 5] = .ok ([37, 33, 40, 66, 65, 68, 80, 82, 69, 67, 41, 53] /- "%!(BADPREC)5" -/) ∧
    cPrintf dg0 false ⟨[], .absent, .star, 100⟩ [negNum 1, num 5] = some ([53] /- "5" -/) := by decide

/-! ### the integer conversions `d i o u x X` -/

/-- C's base / case / signedness of an integer verb -/
def intVerb (verb : UInt8) : Option (Bool × Bool × Bool × Bool × Nat) :=   -- signed, oct, hex, upper, base
  if verb = 100 || verb = 105 then some (true, false, false, false, 10)
  else if verb = 117 then some (false, false, false, false, 10)
  else if verb = 111 then some (false, true, false, false, 8)
  else if verb = 120 then some (false, false, true, false, 16)
  else if verb = 88 then some (false, false, true, true, 16)
  else none

/-- the recorded classes on which Go's integer formatting is not C's (F15, G09-1) -/
def IntExcluded (cs : CSpec) (neg : Bool) (u : Nat) : Prop :=
  (u = 0 ∧ cs.prec = some 0 ∧ (neg = true ∨ cs.fl.plus = true ∨ cs.fl.space = true)) ∨
  (u = 0 ∧ cs.fl.sharp = true ∧ (cs.verb = 120 ∨ cs.verb = 88) ∧ cs.prec ≠ some 0) ∨
  (u = 0 ∧ cs.fl.sharp = true ∧ cs.verb = 111 ∧ cs.prec = some 0) ∨
  (cs.fl.sharp = true ∧ (cs.verb = 120 ∨ cs.verb = 88) ∧ cs.fl.zero = true ∧ cs.fl.minus = false ∧ cs.prec = none ∧
    ∃ w, cs.width = some w ∧ w > (natDigits 16 (cs.verb = 88) u).length)

/-- `sprintf_is_c` for `d i`: in the C domain and outside F15, what `fmt.Sprintf("%…d", int64)` produces is C's `%…d`/`%…i` of
the same integer, for every flag set, width, precision and value -/
theorem sprintf_is_c_partial_signed (dg : DigitGen) (cs : CSpec) (v : Int)
    (hverb : cs.verb = 100 ∨ cs.verb = 105) (hdom : InCDomain cs)
    (hx : ¬ IntExcluded cs (decide (v < 0)) v.natAbs) :
    goFormat dg ⟨cs.fl, cs.width, cs.prec, 100⟩ (.i64 v) = cFormat dg cs (.int v) := by
  obtain ⟨fl, wid, prec, verb⟩ := cs
  simp only at hverb
  have hsharp : fl.sharp = false := by
    rcases hverb with h | h <;> subst h <;> cases hs : fl.sharp <;> simp_all [InCDomain, inCDomain]
  have hcore := cFmtInteger_core fl wid prec (decide (v < 0)) v.natAbs
  have hgo := goInt_eq_cIntCore fl wid prec true false false false 10 (by omega) (decide (v < 0)) v.natAbs
    (by simp) (by simp) (by simp [hsharp]) (by simp) (by simp)
    (fun h => hx (Or.inl h)) (by simp) (by simp) (by simp)
  rcases hverb with h | h <;> subst h
  · simp [goFormat, cFormat, hgo, hcore.1]
  · simp [goFormat, cFormat, hgo, hcore.2.1]

/-- `sprintf_is_c` for `o u x X` (the argument is `uint64(int64(x))`): outside F15 and G09-1 -/
theorem sprintf_is_c_partial_unsigned (dg : DigitGen) (cs : CSpec) (u : Nat) (g : UInt8)
    (hverb : (cs.verb = 117 ∧ g = 100) ∨ (cs.verb = 111 ∧ g = 111) ∨ (cs.verb = 120 ∧ g = 120) ∨ (cs.verb = 88 ∧ g = 88))
    (hdom : InCDomain cs) (hx : ¬ IntExcluded cs false u) :
    goFormat dg ⟨cs.fl, cs.width, cs.prec, g⟩ (.u64 u) = cFormat dg cs (.uint u) := by
  obtain ⟨fl, wid, prec, verb⟩ := cs
  simp only at hverb
  have hcore := cFmtInteger_core fl wid prec false u
  have hps : fl.plus = false ∧ fl.space = false := by
    rcases hverb with ⟨h, _⟩ | ⟨h, _⟩ | ⟨h, _⟩ | ⟨h, _⟩ <;> subst h <;>
      cases hp : fl.plus <;> cases hs : fl.space <;> simp_all [InCDomain, inCDomain]
  rcases hverb with ⟨h, hg⟩ | ⟨h, hg⟩ | ⟨h, hg⟩ | ⟨h, hg⟩ <;> subst h <;> subst hg
  · -- u
    have hsharp : fl.sharp = false := by cases hs : fl.sharp <;> simp_all [InCDomain, inCDomain]
    have hgo := goInt_eq_cIntCore fl wid prec false false false false 10 (by omega) false u
      (by simp) (by simp) (by simp [hsharp]) (by simp [hps.1, hps.2]) (by simp)
      (fun h => hx (Or.inl h)) (by simp) (by simp) (by simp)
    simp [goFormat, cFormat, hgo, hcore.2.2.1]
  · -- o
    have hgo := goInt_eq_cIntCore fl wid prec false true false false 8 (by omega) false u
      (by simp) (by simp) (by simp) (by simp [hps.1, hps.2]) (by simp)
      (fun h => hx (Or.inl h)) (by simp) (fun h => hx (Or.inr (Or.inr (Or.inl ⟨h.1, h.2.1, rfl, h.2.2.2⟩)))) (by simp)
    simp [goFormat, cFormat, hgo, hcore.2.2.2.1]
  · -- x
    have hgo := goInt_eq_cIntCore fl wid prec false false true false 16 (by omega) false u
      (by simp) (by simp) (by simp) (by simp [hps.1, hps.2]) (by simp)
      (fun h => hx (Or.inl h)) (fun h => hx (Or.inr (Or.inl ⟨h.1, h.2.1, Or.inl rfl, h.2.2.2⟩))) (by simp)
      (fun h => hx (Or.inr (Or.inr (Or.inr ⟨h.1, Or.inl rfl, h.2.2.1, h.2.2.2.1, h.2.2.2.2.1, by simpa using h.2.2.2.2.2⟩))))
    simp [goFormat, cFormat, hgo, hcore.2.2.2.2.1]
  · -- X
    have hgo := goInt_eq_cIntCore fl wid prec false false true true 16 (by omega) false u
      (by simp) (by simp) (by simp) (by simp [hps.1, hps.2]) (by simp)
      (fun h => hx (Or.inl h)) (fun h => hx (Or.inr (Or.inl ⟨h.1, h.2.1, Or.inr rfl, h.2.2.2⟩))) (by simp)
      (fun h => hx (Or.inr (Or.inr (Or.inr ⟨h.1, Or.inr rfl, h.2.2.1, h.2.2.2.1, h.2.2.2.2.1, by simpa using h.2.2.2.2.2⟩))))
    simp [goFormat, cFormat, hgo, hcore.2.2.2.2.2]

example : InCDomain ⟨{ plus := true, zero := true }, some 8, none, 100⟩ ∧ ¬ IntExcluded ⟨{ plus := true, zero := true }, some 8, none, 100⟩ false 42 := by
  refine ⟨by decide, ?_⟩; simp [IntExcluded]
example : goFormat dg0 ⟨{ plus := true, zero := true }, some 8, none, 100⟩ (.i64 42) = some ([43, 48, 48, 48, 48, 48, 52, 50] /- "+0000042" -/) := by decide
example : InCDomain ⟨{ sharp := true }, some 6, some 3, 111⟩ ∧ ¬ IntExcluded ⟨{ sharp := true }, some 6, some 3, 111⟩ false 8 := by
  refine ⟨by decide, ?_⟩; simp [IntExcluded]

/-! ### `s` and `c` -/

/-- `%s` (and its width/precision/`-`) is C's for ASCII text (C counts bytes, Go counts runes) -/
theorem sprintf_is_c_partial_str (dg : DigitGen) (cs : CSpec) (s : Bytes)
    (hverb : cs.verb = 115) (hdom : InCDomain cs) (hascii : AllAscii s) :
    goFormat dg ⟨cs.fl, cs.width, cs.prec, 115⟩ (.str s) = cFormat dg cs (.str s) := by
  obtain ⟨fl, wid, prec, verb⟩ := cs
  simp only at hverb; subst hverb
  have hz : fl.zero = false := by cases hz : fl.zero <;> simp_all [InCDomain, inCDomain]
  simp [goFormat, cFormat, goFmtS_is_c fl wid prec s hascii hz]

/-- `%c` (rewritten to `%s` of the character's bytes): the character padded to the width; a multi-byte character only
without width, or when Go counts it as one rune -/
theorem sprintf_is_c_partial_chr (dg : DigitGen) (cs : CSpec) (c : Bytes)
    (hverb : cs.verb = 99) (hdom : InCDomain cs) (hone : runeCount c = 1 ∨ cs.width = none) :
    goFormat dg ⟨cs.fl, cs.width, cs.prec, 115⟩ (.bytes c) = cFormat dg cs (.chr c) := by
  obtain ⟨fl, wid, prec, verb⟩ := cs
  simp only at hverb hone; subst hverb
  have hz : fl.zero = false := by cases hz : fl.zero <;> simp_all [InCDomain, inCDomain]
  have hp : prec = none := by cases prec <;> simp_all [InCDomain, inCDomain]
  subst hp
  simp [goFormat, cFormat, goFmtS_chr_is_c fl wid c hz hone]

/-- the `%c` argument of a number in byte mode is one byte: the character with that code modulo 256 -/
theorem chr_of_number_is_one_byte (a : Arg) (h : a.isStr = false) :
    ∃ b, charBytes false a = [b] ∧ runeCount (charBytes false a) = 1 := by
  refine ⟨UInt8.ofNat ((toInt32 a.n) % 256).toNat, ?_, ?_⟩ <;> simp [charBytes, h, runeCount_single]

/-- … and of a string its first byte (NUL for the empty string) -/
theorem chr_of_string_is_first_byte (a : Arg) (h : a.isStr = true) :
    charBytes false a = [a.s.headD 0] := by
  cases hs : a.s <;> simp [charBytes, h, hs]

example : goFormat dg0 ⟨{ minus := true }, some 3, none, 115⟩ (.bytes [65]) = some ([65, 32, 32] /- "A  " -/) := by decide

/-! ### `e E f g G`, finite values -/

/-- Go's `#` post-processing of `strconv`'s text yields the `#` form C prescribes (an assumption on the digit generator, checked
by correspondence for the exact generator; not proved) -/
def SharpCoherent (dg : DigitGen) : Prop :=
  ∀ verb prec m e, goSharpFloat verb prec (dg.gen verb false prec m e) = dg.gen verb true prec m e

def AsciiDigits (dg : DigitGen) : Prop := ∀ verb sharp prec m e, AllAscii (dg.gen verb sharp prec m e)

/-- sign, `+`/space, `0` and `-` padding and width of the floating conversions are C's for every finite value; the precision is
the explicit one, else 6 (GoAWK inserts `.6` for `g G`, `fmt` defaults `e E f` to 6) -/
theorem sprintf_is_c_partial_float (dg : DigitGen) (cs : CSpec) (neg : Bool) (m : Nat) (e : Int)
    (hverb : cs.verb = 101 ∨ cs.verb = 69 ∨ cs.verb = 102 ∨ cs.verb = 103 ∨ cs.verb = 71)
    (hascii : AsciiDigits dg) (hsharp : cs.fl.sharp = true → SharpCoherent dg) :
    goFormat dg ⟨cs.fl, cs.width, some (cs.prec.getD 6), cs.verb⟩ (.f64 (.fin neg m e)) = cFormat dg cs (.dbl (.fin neg m e)) := by
  obtain ⟨fl, wid, prec, verb⟩ := cs
  simp only at hverb hsharp
  have key := goFmtFloat_is_c dg fl wid (prec.getD 6) verb neg m e (hascii _ _ _ _ _) (fun h => hsharp h _ _ _ _)
  have hc : cFmtFloat dg ⟨fl, wid, some (prec.getD 6), verb⟩ (.fin neg m e) = cFmtFloat dg ⟨fl, wid, prec, verb⟩ (.fin neg m e) := by
    simp [cFmtFloat]
  rcases hverb with h | h | h | h | h <;> subst h <;> simp [goFormat, cFormat, key, hc]

example : AsciiDigits dg0 := by intro _ _ _ _ _ x hx; simp [dg0] at hx; rw [hx]; decide

/-- `addDefaultPrecisionG` gives `%g` the precision 6 (F14, fixed) and leaves an explicit precision and the other verbs alone -/
theorem default_precision_g :
    addPrecG ([37, 103] /- "%g" -/) = [37, 46, 54, 103] /- "%.6g" -/ ∧ addPrecG ([37, 45, 56, 71, 124, 37, 46, 51, 103, 124, 37, 101, 124, 37, 37, 103] /- "%-8G|%.3g|%e|%%g" -/) = [37, 45, 56, 46, 54, 71, 124, 37, 46, 51, 103, 124, 37, 101, 124, 37, 37, 103] /- "%-8.6G|%.3g|%e|%%g" -/ := by decide

/-! ### errors, `%%`, `*` -/

/-- too few arguments is an error naming both counts — never output -/
theorem too_few_args_error (dg : DigitGen) (chars : Bool) (fmt gofmt : Bytes) (types : List UInt8) (args : List Arg)
    (hp : parseFmtTypes fmt = .ok (gofmt, types)) (hlt : args.length < types.length) :
    awkSprintf dg chars fmt args = .err (.argCount args.length types.length) := by
  simp [awkSprintf, hp, hlt]

/-- an unknown conversion character is an error, whatever follows and whatever the arguments -/
theorem unknown_verb_error (dg : DigitGen) (chars : Bool) (body : Bytes) (v : UInt8) (rest : Bytes) (args : List Arg)
    (hb : ∀ c ∈ body, isSpecChar c = true) (hv : isSpecChar v = false) (hne : body = [] → v ≠ 37)
    (hunknown : lookupVerb v = none) :
    awkSprintf dg chars (37 :: (body ++ v :: rest)) args = .err (.badVerb v) := by
  unfold awkSprintf parseFmtTypes
  rw [List.length_cons, parseFmtAux_spec _ body v rest hb hv hne, hunknown]

/-- a format that ends inside a specification is an error -/
theorem missing_verb_error (dg : DigitGen) (chars : Bool) (body : Bytes) (args : List Arg)
    (hb : ∀ c ∈ body, isSpecChar c = true) :
    awkSprintf dg chars (37 :: body) args = .err .noVerb := by
  have hall : ∀ (l : Bytes), (∀ c ∈ l, isSpecChar c = true) → l.dropWhile isSpecChar = [] := by
    intro l; induction l with
    | nil => intro _; rfl
    | cons x r ih => intro h; simp [List.dropWhile, h x (by simp), ih (fun c hc => h c (by simp [hc]))]
  have htw : body.dropWhile isSpecChar = [] := hall body hb
  cases body with
  | nil => simp [awkSprintf, parseFmtTypes, parseFmtAux]
  | cons b bs =>
    have hb37 : b ≠ 37 := isSpecChar_ne_pct b (hb b (by simp))
    simp [awkSprintf, parseFmtTypes, parseFmtAux, hb37, htw]

example : lookupVerb 122 = none ∧ isSpecChar 122 = false := by decide

/-- `%%` is a percent sign and takes no argument -/
theorem percent_percent (dg : DigitGen) (chars : Bool) (args : List Arg) :
    awkSprintf dg chars [37, 37] args = .ok [37] := by
  have h1 : parseFmtTypes [37, 37] = .ok ([37, 37], []) := by rfl
  simp only [awkSprintf, h1]
  simp [convertArgs]
  rfl

/-- each `*` takes one argument (converted like `%d`) before the value: `%<flags>*<verb>` with a single argument is the
"got 1 args, expected 2" error -/
theorem star_width_consumes_arg (dg : DigitGen) (chars : Bool) (flags : Bytes) (verb t g : UInt8) (a : Arg)
    (hf : ∀ c ∈ flags, isGoFlag c = true) (hvs : isSpecChar verb = false) (hv : lookupVerb verb = some (t, g)) :
    awkSprintf dg chars (37 :: ((flags ++ [42]) ++ verb :: [])) [a] = .err (.argCount 1 2) := by
  have hb : ∀ c ∈ flags ++ [42], isSpecChar c = true := by
    intro c hc
    rcases List.mem_append.mp hc with h | h
    · exact isGoFlag_isSpecChar c (hf c h)
    · simp at h; subst h; decide
  have hst : starTypes (flags ++ [42]) = [100] := by
    have : flags.filter (· == 42) = [] := by
      rw [List.filter_eq_nil_iff]; intro c hc; simpa using isGoFlag_ne_star c (hf c hc)
    simp [starTypes, List.filter_append, this]; decide
  unfold awkSprintf parseFmtTypes
  rw [List.length_cons, parseFmtAux_spec _ (flags ++ [42]) verb [] hb hvs (by simp), hv]
  simp [parseFmtAux_nil, hst]

/-- … and with both arguments the width is the first one: `%*d` of (5, 42) is `   42`; a negative one left-justifies -/
theorem star_width_value :
    awkSprintf dg0 false ([37, 42, 100] /- "%*d" -/) [num 5, num 42] = .ok ([32, 32, 32, 52, 50] /- "   42" -/) ∧
    awkSprintf dg0 false ([37, 42, 100, 124] /- "%*d|" -/) [negNum 5, num 42] = .ok ([52, 50, 32, 32, 32, 124] /- "42   |" -/) ∧
    awkSprintf dg0 false ([37, 46, 42, 100] /- "%.*d" -/) [num 4, num 42] = .ok ([48, 48, 52, 50] /- "0042" -/) := by decide

/-! ### print / OFMT -/

/-- `print` writes an integral number in the int64 range as a plain integer, whatever OFMT is -/
theorem print_integral (dg : DigitGen) (ofmt : Bytes) (neg : Bool) (m : Nat) (e : Int)
    (hint : e ≥ 0) (hrange : truncMag m e < two63) :
    numToStr dg ofmt (.fin neg m e) = .ok (if neg && truncMag m e ≠ 0 then 45 :: decimal (truncMag m e) else decimal (truncMag m e)) := by
  have h2 : truncMag m e ≤ two63 := Nat.le_of_lt hrange
  cases neg <;> simp [numToStr, hint, hrange, h2]

/-- … and every other finite number by formatting it with OFMT (through the same `fmt` machinery, `%g` defaulting to 6 digits) -/
theorem print_uses_ofmt (dg : DigitGen) (ofmt : Bytes) (neg : Bool) (m : Nat) (e : Int)
    (hfrac : e < 0 ∧ truncMag m e * 2 ^ (-e).toNat ≠ m) :
    numToStr dg ofmt (.fin neg m e) = goPrintf dg (addPrecG ofmt) [.f64 (.fin neg m e)] := by
  have h1 : ¬ e ≥ 0 := by omega
  simp [numToStr, h1, hfrac.2]

/-- with the default OFMT that is `%.6g` of the value -/
theorem print_default_ofmt (dg : DigitGen) (x : F64) :
    goPrintf dg (addPrecG ([37, 46, 54, 103] /- "%.6g" -/)) [.f64 x] = .ok (goFmtFloat dg {} none 6 103 x) := by
  have h : addPrecG ([37, 46, 54, 103] /- "%.6g" -/) = [37, 46, 54, 103] /- "%.6g" -/ := by decide
  rw [h]
  simp [goPrintf, goPrintfAux, goFormat, isGoFlag, isDigit, numVal, litTooLarge, goFlags]

example : (-1 : Int) < 0 ∧ truncMag 3 (-1) * 2 ^ (1 : Nat) ≠ 3 := by decide

/-! ### print in every output mode converts with OFMT; everything else converts with CONVFMT -/

/-- in the default, CSV and TSV output modes alike, what `print` writes is determined by the texts `value.str(OFMT)` of its
arguments (numbers: integer or OFMT; strings and fields: their text) — CONVFMT plays no part -/
theorem print_converts_with_ofmt_every_mode (dg : DigitGen) (mode : OutMode) (ofmt ofs ors : Bytes) (args : List Val) (texts : List Bytes)
    (h : args.map (valToStr dg ofmt) = texts.map Res.ok) :
    printArgs dg mode ofmt ofs ors args = emitRecord mode ofs ors texts := by
  have hc : ∀ ts : List Bytes, collectTexts (ts.map Res.ok) = .ok ts := by
    intro ts; induction ts with
    | nil => rfl
    | cons t r ih => simp [collectTexts, ih]
  simp [printArgs, h, hc]

/-- a string or field argument is written as its text, a number through `numToStr OFMT` (see `print_integral`, `print_uses_ofmt`) -/
theorem print_arg_text (dg : DigitGen) (ofmt : Bytes) (s : Bytes) (x : F64) :
    valToStr dg ofmt (.str s) = .ok s ∧ valToStr dg ofmt (.num x) = numToStr dg ofmt x := ⟨rfl, rfl⟩

/-- the non-print conversion is the same function at CONVFMT -/
theorem tostring_uses_convfmt (dg : DigitGen) (convfmt : Bytes) (v : Val) :
    toStringConv dg convfmt v = valToStr dg convfmt v := rfl

/-- OFMT `%.2f`, CONVFMT irrelevant: 2.5 (= 5·2⁻¹) and the field text `x` in CSV mode give `2.50,x` (digit text from the generator) -/
example : printArgs ⟨fun _ _ _ _ _ => [50, 46, 53, 48]⟩ .csv [37, 46, 50, 102] [32] [10] [.num (.fin false 5 (-1)), .str [120]]
    = .ok [50, 46, 53, 48, 44, 120, 10] := by decide

end GoawkModel.C09.Props
