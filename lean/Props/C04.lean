import Proofs.C04Render
import Proofs.C04Gen
/-! Property theorems for C04 (see /verif/DESIGN.md). Only property theorems and non-vacuity examples live here.

Model: `GoawkModel.C04` (one function per level of `parser/parser.go`, open recursion, fuel = #tokens), the POSIX table as
data (`BOp.prec`, `BOp.assoc`, `Expr.prec`), `renderMin` (only the parentheses the table requires), `renderFull`, `strip`.
Language of the theorems (`wfA`): numbers, strings, variables, grouping, `^`, unary `- + !`, `* / %`, `+ -`, concatenation
(with its start-token rule), relational, `~ !~`, `in`, `&&`, `||`, `?:`, assignment to any lvalue, pre/post `++ --`, `$`
(with the `$$x++ = $($x++)` rule: `renderMin` writes `$($x)++`), `a[i]`; both the plain (`pc = false`) and the
print-argument (`pc = true`) context, and the getline forms as operands (`same_grouping_full`). -/
namespace GoawkModel.C04

/-- Writing a tree with every sub-expression parenthesised parses back to the tree. -/
theorem parse_renderFull (e : Expr) (hwf : wfA e = true) (pc : Bool) (rest : List Tok) (hf : Follow pc rest) :
    stripRes (parseExpr pc (renderFull e ++ rest)) = .ok (e, rest) := by
  have h := full_ok e hwf
  unfold renderFull
  rw [parseExpr_canon pc (grp e) rest (h.2.1 pc 1 (by omega)) (by unfold Follow at hf; omega)]
  simp only [stripRes, h.2.2]

/-- Writing a tree with only the parentheses the POSIX table requires parses back to the tree. -/
theorem parse_renderMin (e : Expr) (hwf : wfA e = true) (pc : Bool) (rest : List Tok) (hf : Follow pc rest) :
    stripRes (parseExpr pc (renderMin pc e ++ rest)) = .ok (e, rest) := by
  have h := min_ok e hwf pc
  unfold renderMin
  rw [parseExpr_canon pc (addMin pc e) rest (h.1 1 (by unfold topLevel; split <;> first | omega | exact one_le_prec e))
    (by unfold Follow at hf; omega)]
  simp only [stripRes, h.2]

/-- The grouping of the minimally parenthesised spelling is that of the fully parenthesised one. -/
theorem same_grouping (e : Expr) (hwf : wfA e = true) (pc : Bool) (rest : List Tok) (hf : Follow pc rest) :
    stripRes (parseExpr pc (renderMin pc e ++ rest)) = stripRes (parseExpr pc (renderFull e ++ rest)) := by
  rw [parse_renderMin e hwf pc rest hf, parse_renderFull e hwf pc rest hf]

/-- The parser reads back every tree of its own range (written parentheses = `group` nodes), exactly. -/
theorem parse_canonical (c : Expr) (pc : Bool) (rest : List Tok) (hc : canon pc 1 c = true) (hf : Follow pc rest) :
    parseExpr pc (render c ++ rest) = .ok (c, rest) :=
  parseExpr_canon pc c rest hc (by unfold Follow at hf; omega)

/-- Inside `print`, an unparenthesised `>` (`>>`, `|`) after a complete argument is the redirection, never a comparison:
    `print A > D` is `Print [A] (>, D)`, for all stage-A trees `A`, `D`. -/
theorem print_gt_is_redirect (a d : Expr) (t : Tok) (rest : List Tok) (ha : wfA a = true) (hd' : wfA d = true)
    (ht : isRedirect t = true) (hf : Follow false rest) :
    (match parsePrint (renderMin true a ++ t :: (renderMin false d ++ rest)) with
     | .ok (a', some (t', d'), rest') => some (strip a', t', strip d', rest')
     | _ => none) = some (a, t, d, rest) := by
  have h1 := min_ok a ha true
  have h2 := min_ok d hd' false
  unfold renderMin
  rw [parsePrint_redirect (addMin true a) (addMin false d) t rest
    (h1.1 1 (by unfold topLevel; split <;> first | omega | exact one_le_prec a))
    (h2.1 1 (by unfold topLevel; split <;> first | omega | exact one_le_prec d)) ht (by unfold Follow at hf; omega)]
  simp only [h1.2, h2.2]

/-- `expr | getline` binds looser than concatenation (and than everything up to `||`): for every tree `c` the parser
    produces at the `||` level — in particular a concatenation `a b` — `c | getline` is `Getline (cmd := c)`. -/
theorem pipe_getline_looser_than_concat (a b : Expr) (rest : List Tok) (ha : wfA a = true) (hb : wfA b = true)
    (hf : Follow false rest) :
    stripRes (parseExpr false (renderMin false (.binary .concat a b) ++ .pipe :: .getline :: rest)) =
      .ok (.getline (.binary .concat a b) .none .none, rest) := by
  have hw : wfA (.binary .concat a b) = true := by simp [wfA, ha, hb, BOp.stageA]
  have h := min_ok _ hw false
  unfold renderMin
  rw [parse_pipe_getline (addMin false (.binary .concat a b)) rest
    (h.1 3 (by simp [topLevel, Expr.prec, BOp.prec])) hf]
  simp only [stripRes, strip, h.2]

/-- The full statement of the property over the model's whole expression language (`wfFull`: every unary and binary
    operator, `in`, `?:`, assignment to any lvalue, pre/post `++ --`, `$`, `a[i]`, `@expr`, and the getline forms `getline`,
    `getline lv`, `getline < f`, `getline lv < f`, `cmd | getline [lv]` as operands): the minimally and the fully
    parenthesised spelling both parse back to the tree. -/
theorem same_grouping_full (e : Expr) (pc : Bool) (rest : List Tok) (hwf : wfFull e = true) (hf : Follow pc rest) :
    stripRes (parseExpr pc (renderMin pc e ++ rest)) = .ok (e, rest) ∧
    stripRes (parseExpr pc (renderFull e ++ rest)) = .ok (e, rest) :=
  ⟨parse_renderMin e (wfFull_wfA e hwf) pc rest hf, parse_renderFull e (wfFull_wfA e hwf) pc rest hf⟩

/-- What the theorems do not cover (model + correspondence only): multi-dimensional indices `a[i,j]`, `(i,j) in a`,
    function calls, regex literals and `@`-fields are not in the model's expression type (the driver answers
    `unsupported`), and the lvalue back-tracking `1 && x = 1` (beyond the table) has no theorem. Stated for an
    abstract extension of the model. -/
def same_grouping_beyond_model (Expr' Tok' : Type) (parse : Bool → List Tok' → Option (Expr' × List Tok'))
    (renderMin : Bool → Expr' → List Tok') (renderFull : Expr' → List Tok') (strip : Expr' → Expr')
    (wf : Expr' → Prop) (follow : Bool → List Tok' → Prop) : Prop :=
  ∀ e pc rest, wf e → follow pc rest →
    (parse pc (renderMin pc e ++ rest)).map (fun r => (strip r.1, r.2)) = some (e, rest) ∧
    (parse pc (renderFull e ++ rest)).map (fun r => (strip r.1, r.2)) = some (e, rest)

/-- the same statement over `wfA` (kept under its earlier name) -/
theorem same_grouping_partial (e : Expr) (hwf : wfA e = true) (pc : Bool) (rest : List Tok) (hf : Follow pc rest) :
    stripRes (parseExpr pc (renderMin pc e ++ rest)) = .ok (e, rest) ∧
    stripRes (parseExpr pc (renderFull e ++ rest)) = .ok (e, rest) :=
  ⟨parse_renderMin e hwf pc rest hf, parse_renderFull e hwf pc rest hf⟩

/-- Regenerated tie: parser.go's level functions (operand function, operator tokens, loop shape), primary()'s cases and the
    print redirection tokens are the ones the model is written from; the POSIX table agrees with ast.go's table. -/
theorem gen_matches :
    Generated.C04Levels.levels = expectedLevels ∧ Generated.C04Levels.primaryCases = expectedPrimaryCases ∧
    Generated.C04Levels.printRedirectTokens = (redirectOrder.filter isRedirect).map tokName ∧
    (∀ op : BOp, op.prec = C20.bopPrec op + 1) ∧
    Generated.C04Levels.primaryCaseHeads = expectedPrimaryHeads :=
  ⟨gen_matches_levels, gen_matches_primary, gen_matches_redirect, table_matches_ast, gen_matches_heads⟩

/-! ### non-vacuity -/

/-- `x0 = 1 + 2 * - 3 ^ 4 < 5 ? 6 : 7` -/
def exTree : Expr :=
  .assign .set (.var 0) (.cond (.binary (.cmp .lt) (.binary .add (.num 1) (.binary .mul (.num 2) (.unary .neg (.binary .pow (.num 3) (.num 4))))) (.num 5)) (.num 6) (.num 7))

example : wfA exTree = true := by decide
example : Follow false [.rbrace] := rfl
example : Follow true [.cmp .gt, .str 1] := rfl
example : wfA (.binary .mul (.binary .add (.num 1) (.num 2)) (.binary (.cmp .gt) (.num 3) (.num 4))) = true := by decide
example : canon false 1 (.binary .sub (.binary .sub (.num 1) (.num 2)) (.group (.binary .sub (.num 3) (.num 4)))) = true := by decide
example : wfA (.binary .concat (.var 0) (.unary .neg (.inArr (.binary .match_ (.var 1) (.str 2)) 10))) = true := by decide
example : canon false 1 (.binary .concat (.binary .concat (.num 1) (.num 2)) (.group (.unary .neg (.num 3)))) = true := by decide
example : parseExpr false [.num 1, .num 2, .pipe, .getline, .rbrace] =
    .ok (.getline (.binary .concat (.num 1) (.num 2)) .none .none, [.rbrace]) := by rfl
/-- `a[1] += $$x0++` (written `$($x0)++` by `renderMin`), `++$x1 ^ - x2--` -/
example : wfA (.assign .add (.index 11 (.num 1)) (.incr false false (.field (.field (.var 0))))) = true := by decide
example : wfA (.binary .pow (.incr true false (.field (.var 1))) (.unary .neg (.incr false true (.var 2)))) = true := by decide
example : canon false 1 (.incr false false (.field (.group (.field (.var 0))))) = true := by decide
example : parseExpr false [.dollar, .dollar, .name 0, .incr, .rbrace] =
    .ok (.field (.incr false false (.field (.var 0))), [.rbrace]) := by rfl
/-- `(getline x0 < $1) > 0`, `x1 = (s2 s3 | getline a[1])`: getline forms as operands -/
example : wfFull (.binary (.cmp .gt) (.getline .none (.var 0) (.field (.num 1))) (.num 0)) = true := by decide
example : wfFull (.assign .set (.var 1) (.getline (.binary .concat (.str 2) (.str 3)) (.index 11 (.num 1)) .none)) = true := by decide
example : parseExpr false [.getline, .name 0, .cmp .lt, .dollar, .num 1, .rbrace] =
    .ok (.getline .none (.var 0) (.field (.num 1)), [.rbrace]) := by rfl
/-- `@ s1 s2 @ s3` (named fields on both sides of a concatenation) -/
example : wfFull (.binary .concat (.binary .concat (.namedField (.str 1)) (.str 2)) (.namedField (.str 3))) = true := by decide
example : parseExpr false [.str 1, .at, .str 2, .rbrace] = .ok (.binary .concat (.str 1) (.namedField (.str 2)), [.rbrace]) := by rfl
example : isRedirect (.cmp .gt) = true ∧ isRedirect .pipe = true ∧ isRedirect .append = true := by decide
/-- the theorems are not about an always-failing or always-same-answer parser: `1 - 2 - 3` groups to the left, `2 ^ 3 ^ 4` to the right -/
example : parseExpr false [.num 1, .sub, .num 2, .sub, .num 3, .rbrace] =
    .ok (.binary .sub (.binary .sub (.num 1) (.num 2)) (.num 3), [.rbrace]) := by rfl
example : parseExpr false [.num 2, .pow, .num 3, .pow, .num 4, .rbrace] =
    .ok (.binary .pow (.num 2) (.binary .pow (.num 3) (.num 4)), [.rbrace]) := by rfl
example : parseExpr false [.num 1, .cmp .lt, .num 2, .cmp .lt, .num 3, .rbrace] =
    .ok (.binary (.cmp .lt) (.num 1) (.num 2), [.cmp .lt, .num 3, .rbrace]) := by rfl

end GoawkModel.C04
