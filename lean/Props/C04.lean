/-! Property theorems for C04 (see /verif/DESIGN.md). Only property theorems and non-vacuity examples live here. -/
