import Proofs.C08Pins
import Proofs.C08RoundTrip
import Proofs.C08Stable
import GoawkModel.C08Scan
import Proofs.C08Chunk
import Proofs.C08Spec
/-!
# C08 — CSV/TSV input follows RFC 4180; CSV output reads back to the same fields

Property theorems over the models of `GoawkModel/C08.lean`: `csvWrite` / `joinFields` (what `print` and the `$0` rebuild
produce in CSV/TSV output mode) and the specification reader `csvRecords` / `csvRead` / `reparse` (what CSV/TSV input mode
yields for a whole input). Separators are any byte string with the shape of a UTF-8 encoded rune other than `"`, CR, LF
(`validSep`); fields are arbitrary byte strings; nothing is bounded.
-/
namespace GoawkModel.C08.Props
open GoawkModel GoawkModel.C08

/-- **Round trip.** Whatever a sequence of `print` statements writes in CSV/TSV output mode for carriage-return-free field
lists is read back, by the input mode with the same separator, as exactly those field lists: fields may contain separators,
quotes, line feeds, leading/trailing blanks, be empty (also the record that is one empty field, written as `""`), be invalid
UTF-8. Excluded is only an output that begins with the three BOM bytes (`csv_round_trip_bom_fails`, finding G08-3). -/
theorem csv_round_trip (sep : Bytes) (hs : validSep sep = true) (fss : List (List Bytes))
    (hne : ∀ fs ∈ fss, fs ≠ []) (hcr : ∀ fs ∈ fss, ∀ f ∈ fs, 13 ∉ f)
    (hb : bom.isPrefixOf (writeAll sep fss) = false) :
    csvRead sep (writeAll sep fss) = fss := by
  have := csvRows_writeAll (cfg := { sep := sep }) hs fss hne hcr (Or.inl rfl) hb
  simpa [csvRead, csvRecords] using this

/-- one `print`: `csvRead sep (csvWrite sep fs) = [fs]` -/
theorem csv_round_trip_one (sep : Bytes) (hs : validSep sep = true) (fs : List Bytes)
    (h1 : fs ≠ []) (hcr : ∀ f ∈ fs, 13 ∉ f) (hb : bom.isPrefixOf (csvWrite sep fs) = false) :
    csvRead sep (csvWrite sep fs) = [fs] := by
  have := csv_round_trip sep hs [fs] (by simpa using h1) (by simpa using hcr) (by simpa [writeAll] using hb)
  simpa [writeAll] using this

/-- the same with a comment character configured on the input side, provided no written record begins with it -/
theorem csv_round_trip_comment (cfg : Cfg) (hh : cfg.header = false) (hs : validSep cfg.sep = true) (fss : List (List Bytes))
    (hne : ∀ fs ∈ fss, fs ≠ []) (hcr : ∀ fs ∈ fss, ∀ f ∈ fs, 13 ∉ f) (hc : NoCommentStart cfg fss)
    (hb : bom.isPrefixOf (writeAll cfg.sep fss) = false) :
    (csvRecords cfg (writeAll cfg.sep fss)).map Prod.fst = fss := by
  simpa [csvRecords, hh] using csvRows_writeAll hs fss hne hcr hc hb

/-- **`$0` rebuild.** In CSV/TSV output mode the `$0` rebuilt from assigned fields (`joinFields`), re-parsed by the input mode
with the same separator (assignment to `$0`, `split(s, a)`), yields the assigned fields. -/
theorem joinFields_round_trip (cfg : Cfg) (hs : validSep cfg.sep = true) (fs : List Bytes) (h1 : fs ≠ [])
    (hcr : ∀ f ∈ fs, 13 ∉ f) (hc : cfg.comment = [] ∨ cfg.comment.isPrefixOf (joinFields cfg.sep fs) = false)
    (hb : bom.isPrefixOf (joinFields cfg.sep fs) = false) :
    reparse cfg (joinFields cfg.sep fs) = fs :=
  reparse_joinFields hs fs h1 hcr hc hb

/-- The property as it is quantified ("all field-value lists"): every non-empty list of CR-free fields, no side condition. -/
def RoundTripFull : Prop :=
  ∀ (sep : Bytes) (fs : List Bytes), validSep sep = true → fs ≠ [] → (∀ f ∈ fs, 13 ∉ f) → csvRead sep (csvWrite sep fs) = [fs]

/-- A first field that begins with the BOM bytes is written unquoted and loses them at the start of the input
(finding G08-3, recorded; replayed on the real code by the harness corpus). -/
theorem csv_round_trip_bom_fails :
    csvRead [44] (csvWrite [44] [[0xEF, 0xBB, 0xBF, 97], [98]]) = [[[97], [98]]] := by decide

/-- … so the unconditional statement is false of the code as it stands; `csv_round_trip_one` is it with the one side
condition "the output does not begin with the BOM bytes". -/
theorem csv_round_trip_full_fails : ¬ RoundTripFull := by
  intro h
  have := h [44] [[0xEF, 0xBB, 0xBF, 97], [98]] (by decide) (by simp) (by decide)
  rw [csv_round_trip_bom_fails] at this
  revert this
  decide

/-- the exclusion of carriage returns is needed: `\r\n` inside a quoted field is read back as `\n` -/
theorem csv_round_trip_needs_cr_free :
    csvRead [44] (csvWrite [44] [[97, 13, 10, 98]]) = [[[97, 10, 98]]] := by decide

-- non-vacuity: the hypotheses are satisfiable by a record that needs every kind of quoting, and the conclusion is what it says
example : validSep [44] = true ∧ validSep [0xC3, 0xA9] = true ∧ validSep [9] = true ∧ validSep [34] = false := by decide

example : csvWrite [44] [[97, 44, 98], [99, 34, 100], [101, 10, 102], [32, 103], [], [92, 46]] =
    [34, 97, 44, 98, 34, 44, 34, 99, 34, 34, 100, 34, 44, 34, 101, 10, 102, 34, 44, 34, 32, 103, 34, 44, 44, 34, 92, 46, 34, 10] := by
  decide

example : csvRead [44] (writeAll [44] [[[97, 44, 98], [99, 34, 100], [101, 10, 102], [32, 103], [], [92, 46]], [[], []]]) =
    [[[97, 44, 98], [99, 34, 100], [101, 10, 102], [32, 103], [], [92, 46]], [[], []]] :=
  csv_round_trip [44] (by decide) _ (by decide) (by decide) (by decide)

-- the single empty field (repaired G08-2) and records made of empty fields only
example : csvWrite [44] [[]] = [34, 34, 10] := by decide
example : csvRead [44] (writeAll [44] [[[]], [[], []], [[]]]) = [[[]], [[], []], [[]]] :=
  csv_round_trip [44] (by decide) _ (by decide) (by decide) (by decide)

-- a multi-byte separator whose lead byte alone and continuation byte alone occur in fields
example : csvRead [0xC3, 0xA9] (csvWrite [0xC3, 0xA9] [[0xC3], [0xA9], [97, 0xC3, 0xA9, 98]]) =
    [[[0xC3], [0xA9], [97, 0xC3, 0xA9, 98]]] :=
  csv_round_trip_one _ (by decide) _ (by decide) (by decide) (by decide)

example : reparse { sep := [44] } (joinFields [44] [[97, 34], [], [10]]) = [[97, 34], [], [10]] :=
  joinFields_round_trip _ (by decide) _ (by decide) (by decide) (by decide) (by decide)

example : reparse { sep := [44] } (joinFields [44] [[]]) = [[]] :=
  joinFields_round_trip _ (by decide) _ (by decide) (by decide) (by decide) (by decide)

-- the reader on hand-written input: lenient quotes, doubled quotes, CRLF, comment and blank lines, BOM, header
example : csvRecords { sep := [44], comment := [35], header := true }
      ([0xEF, 0xBB, 0xBF] ++ [104, 10] ++ [35, 120, 10] ++ [13, 10] ++ [97, 34, 98, 44, 34, 99, 34, 34, 100, 34, 13, 10] ++ [34, 101, 13, 10, 102, 34]) =
    [([[97, 34, 98], [99, 34, 100]], [97, 34, 98, 44, 34, 99, 34, 34, 100, 34]),
     ([[101, 10, 102]], [34, 101, 10, 102, 34])] := by decide


/-! ## Input side: independence of what follows, delivery schedules -/

/-- **No bytes of a neighbouring record.** A record that ended at its line break is parsed to the same fields, and the same
number of bytes is consumed, whatever bytes follow it in the input (`x` arbitrary: more records, garbage, a half-delivered
chunk). This is the per-record step on which `csv_stable` and `csv_chunk_independent` below rest. -/
theorem csv_record_independent_of_rest_partial (sep : Bytes) (hs : validSep sep = true) (d x : Bytes) (fs : List Bytes) (r : Bytes)
    (cr : Bool) (h : fieldsFuel sep (d.length + 1) d = (fs, r, false, cr)) :
    fieldsFuel sep ((d ++ x).length + 1) (d ++ x) = (fs, r ++ x, false, cr) :=
  record_independent_of_rest hs d x fs r cr h

example : fieldsFuel [44] 12 [97, 44, 34, 98, 13, 10, 99, 34, 13, 10, 100] = ([[97], [98, 10, 99]], [100], false, true) := by decide

/-- **Chunk independence.** "None of this depends on how the input is chunked": for every separator of valid shape and
every comment setting (none, or any character other than a line feed), whatever chunks the reader delivers — any number,
any sizes, empty ones included, cuts inside the BOM, inside a multi-byte separator or comment character, inside a quoted
field or between CR and LF — and whether it reports EOF by a separate `Read` or together with its last chunk, the scanner
(`csvSplitter.scan` with its `noBOMCheck` / `rowNum` / header state, driven by the `bufio.Scanner` loop) yields the same
header names, records, fields and `$0` values as for the same bytes delivered in one piece. -/
theorem csv_chunk_independent (cfg : Cfg) (hs : validSep cfg.sep = true) (hc : 10 ∉ cfg.comment)
    (eofWith eofWith' : Bool) (chunks chunks' : List Bytes) (h : chunks.flatten = chunks'.flatten) :
    csvScanAll cfg eofWith chunks = csvScanAll cfg eofWith' chunks' := by
  rw [csvScanAll_eq_scanWhole cfg hs hc, csvScanAll_eq_scanWhole cfg hs hc, h]

/-- … in particular equal to one-piece delivery, and to the scanner run on the whole input with EOF known (`scanWhole`) -/
theorem csv_chunk_independent_one_piece (cfg : Cfg) (hs : validSep cfg.sep = true) (hc : 10 ∉ cfg.comment)
    (eofWith : Bool) (chunks : List Bytes) :
    csvScanAll cfg eofWith chunks = csvScanAll cfg false [chunks.flatten] ∧
    csvScanAll cfg eofWith chunks = scanWhole cfg chunks.flatten :=
  ⟨csv_chunk_independent cfg hs hc _ _ _ _ (by simp), csvScanAll_eq_scanWhole cfg hs hc _ _⟩

/-- the single-call version (`WellFormed.tokenStable` of the C07 scanner theorem, with the splitter state): a record
decided before EOF is known is decided identically — same advance, header names, fields, `$0` — on every extension of the
data, at EOF or not -/
theorem csv_stable (cfg : Cfg) (hs : validSep cfg.sep = true) (hc : 10 ∉ cfg.comment) (st : St) (buf : Bytes)
    (n : Nat) (names : Option (List Bytes)) (fs : List Bytes) (t : Bytes)
    (h : csvScan cfg st buf false = .record n names fs t) :
    0 < n ∧ n ≤ buf.length ∧ ∀ (x : Bytes) (e : Bool), csvScan cfg st (buf ++ x) e = .record n names fs t :=
  csvScan_record_stable cfg hs hc st buf n names fs t h

/-- **Fields and `$0` follow the RFC 4180 reader** (`csv_fields_spec` / `csv_record_text` of the design): the scanner on a
whole input yields exactly the specification reader's header names, records, fields and `$0` values — the BOM ignored,
comment and empty lines skipped, quoted fields with separators, doubled quotes and line breaks, lenient quotes, CRLF
accepted, the final-`\r` rule, `$0` = the record's own bytes without the line terminator. -/
theorem csv_fields_spec (cfg : Cfg) (hs : validSep cfg.sep = true) (x : Bytes) :
    scanWhole cfg x = { names := csvHeader cfg x, recs := csvRecords cfg x } :=
  scanWhole_eq_spec cfg hs x

/-- **The input clause in one statement.** Under any delivery of the input bytes — any chunking, EOF reported separately
or together with the last chunk — the program sees exactly the specification reader's records of the whole input. -/
theorem csv_any_delivery_spec (cfg : Cfg) (hs : validSep cfg.sep = true) (hc : 10 ∉ cfg.comment) (eofWith : Bool)
    (chunks : List Bytes) :
    csvScanAll cfg eofWith chunks =
      { names := csvHeader cfg chunks.flatten, recs := csvRecords cfg chunks.flatten } := by
  rw [csvScanAll_eq_scanWhole cfg hs hc, scanWhole_eq_spec cfg hs]

-- the former witness of G08-1 (repaired): header row and data row delivered in one `Read` that also returns `io.EOF`
example : csvScanAll { sep := [44], header := true } true [[104, 44, 105, 10, 97, 44, 98, 10]] =
    { names := some [[104], [105]], recs := [([[97], [98]], [97, 44, 98])] } := by decide

-- non-vacuity / sanity of the scanner model: a BOM, a quoted field with CRLF inside and a header row, cut inside the BOM,
-- inside the quoted field and inside the CRLF, equals the specification reader on the whole input
example : csvScanAll { sep := [44], header := true } false
      [[0xEF, 0xBB], [0xBF, 104, 10, 34, 97], [13], [10, 98, 34, 44, 99, 13], [10, 100]] =
    { names := some [[104]], recs := [([[97, 10, 98], [99]], [34, 97, 10, 98, 34, 44, 99]), ([[100]], [100])] } := by decide

example : csvRecords { sep := [44], header := true } [0xEF, 0xBB, 0xBF, 104, 10, 34, 97, 13, 10, 98, 34, 44, 99, 13, 10, 100] =
    [([[97, 10, 98], [99]], [34, 97, 10, 98, 34, 44, 99]), ([[100]], [100])] := by decide

end GoawkModel.C08.Props

/-! ## Pinned source text (regenerated tie; extract/pins.go, tools/repin.py)
An edit of one of these functions in /repo breaks the matching obligation: the model below was written from the text
in `Proofs.C08Pins` and has to be compared with the new text before it is re-pinned. -/
namespace GoawkModel.Pins.C08
theorem pin_csvSplitter_scan : Generated.C08Pins.csvSplitter_scan = Expected.csvSplitter_scan := rfl
theorem pin_writeCSV : Generated.C08Pins.writeCSV = Expected.writeCSV := rfl
theorem pin_lenNewline : Generated.C08Pins.lenNewline = Expected.lenNewline := rfl
theorem pin_nextRune : Generated.C08Pins.nextRune = Expected.nextRune := rfl
theorem pin_setFieldNames : Generated.C08Pins.setFieldNames = Expected.setFieldNames := rfl
theorem pin_list : Generated.C08Pins.pinned = Expected.pinned := rfl
end GoawkModel.Pins.C08
-- end of pinned source text
