/-! Property theorems for C08 (see /verif/DESIGN.md). Only property theorems and non-vacuity examples live here. -/
