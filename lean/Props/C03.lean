/-! Property theorems for C03 (see /verif/DESIGN.md). Only property theorems and non-vacuity examples live here. -/
