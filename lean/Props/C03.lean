import Proofs.C03First
/-! Property theorems for C03 (see /verif/DESIGN.md). Only property theorems and non-vacuity examples live here.

Model: `GoawkModel.C03` (fields and functions of `lexer.Lexer`, generated keyword / operator tables).
`trueLineCol src off` is the property's position rule: line = 1 + newlines before `off`, column = 1 + bytes since the last
newline, carriage returns not counted.  `Token.off` is a ghost value: the byte offset at which the lexer took the position. -/
namespace GoawkModel.C03
open GoawkModel
open GoawkModel.Generated.C03Lex

/-! ## regenerated source facts the hand model was written against -/

theorem gen_matches_next : nextSrc =
    "l.pos = l.nextPos; if l.offset >= len(l.src) { if l.ch != 0 { l.ch = 0 l.offset++ } return }; ch := l.src[l.offset]; if ch == '\\n' { l.nextPos.Line++ l.nextPos.Column = 1 } else if ch != '\\r' { l.nextPos.Column++ }; l.ch = ch; l.offset++" := rfl

theorem gen_matches_unread : unreadSrc = "l.offset--; l.nextPos = l.pos; l.pos.Column--; l.ch = l.src[l.offset-1]" := rfl

theorem gen_matches_choice : choiceSrc = "if l.ch == ch { l.next() return two }; return one" := rfl

theorem gen_matches_predicates :
    wsCond = "l.ch == ' ' || l.ch == '\\t' || l.ch == '\\r' || l.ch == '\\\\'" ∧
    isNameStartSrc = "return ch == '_' || ch >= 'a' && ch <= 'z' || ch >= 'A' && ch <= 'Z'" ∧
    isDigitSrc = "return ch >= '0' && ch <= '9'" ∧
    defaultCase = "tok = ILLEGAL; val = \"unexpected char\"" := ⟨rfl, rfl, rfl, rfl⟩

/-- the cases of `switch ch` that are not plain operator shapes are exactly the digits, `.`, the two quotes and `&` (hand-modelled) -/
theorem gen_matches_special : special = [48, 49, 50, 51, 52, 53, 54, 55, 56, 57, 46, 34, 39, 38] := by decide

/-- the operator trie extracted from `switch ch` -/
theorem gen_matches_ops : ops = [
    (36, T.DOLLAR, []), (64, T.AT, []), (123, T.LBRACE, []), (125, T.RBRACE, []),
    (61, T.ASSIGN, [(61, T.EQUALS, [])]), (60, T.LESS, [(61, T.LTE, [])]),
    (62, T.GREATER, [(61, T.GTE, []), (62, T.APPEND, [])]),
    (40, T.LPAREN, []), (41, T.RPAREN, []), (44, T.COMMA, []), (59, T.SEMICOLON, []),
    (43, T.ADD, [(43, T.INCR, []), (61, T.ADD_ASSIGN, [])]), (45, T.SUB, [(45, T.DECR, []), (61, T.SUB_ASSIGN, [])]),
    (42, T.MUL, [(42, T.POW, [(61, T.POW_ASSIGN)]), (61, T.MUL_ASSIGN, [])]),
    (47, T.DIV, [(61, T.DIV_ASSIGN, [])]), (37, T.MOD, [(61, T.MOD_ASSIGN, [])]),
    (91, T.LBRACKET, []), (93, T.RBRACKET, []), (10, T.NEWLINE, []), (94, T.POW, [(61, T.POW_ASSIGN, [])]),
    (33, T.NOT, [(61, T.NOT_EQUALS, []), (126, T.NOT_MATCH, [])]), (126, T.MATCH, []), (63, T.QUESTION, []),
    (58, T.COLON, []), (124, T.PIPE, [(124, T.OR, [])])] := rfl

/-- the keyword table has the 41 entries the model was validated with, none of them mapping to a non-keyword token -/
theorem gen_matches_keywords : keywords.length = 41 ∧ keywords.all (fun kv => T.BEGIN ≤ kv.2 && kv.2 ≤ T.F_TOUPPER) = true ∧
    tokenNames.length = 89 ∧ (T.ILLEGAL, T.EOF, T.NAME, T.NUMBER, T.STRING, T.REGEX) = (0, 1, 85, 86, 87, 88) := by decide

/-! ## the position bookkeeping -/

/-- `trueLineCol` is the property's rule, stated recursively: offset 0 is 1:1 and each byte moves the position as the statement says -/
theorem trueLineCol_spec (src : Bytes) :
    trueLineCol src 0 = ⟨1, 1⟩ ∧
    ∀ off, off < src.length → trueLineCol src (off + 1) =
      (if byteAt src off = 10 then ⟨(trueLineCol src off).line + 1, 1⟩
       else if byteAt src off ≠ 13 then ⟨(trueLineCol src off).line, (trueLineCol src off).col + 1⟩
       else trueLineCol src off) :=
  ⟨trueLineCol_zero src, fun off h => by rw [trueLineCol_succ src off h]; rfl⟩

/-- `next()` keeps the lexer's `pos` / `nextPos` equal to the true line/column of the current / next byte offset, for every source
and every reachable state — including all further calls at the end of input (where a column used to be added: G03-1, repaired) -/
theorem next_preserves_inv (src : Bytes) (s : St) : Inv src s → Inv src (next src s) := next_inv

/-- `unread()` restores all six lexer fields exactly when the character that becomes current again is a real byte other than
newline and carriage return — the precondition in the Go comment; the un-read character itself may be a newline, a CR or the end
of input (F05, repaired) -/
theorem unread_undoes_next (src : Bytes) (s : St) (h : G src s) (h0 : s.ch ≠ 0) (h10 : s.ch ≠ 10) (h13 : s.ch ≠ 13) :
    unread src (next src s) = s := unread_next h h0 h10 h13

/-- a dangling exponent (`1e`, `1e+` followed by no digit — at a line end, a CR, the end of input, anything) leaves the lexer
exactly at the `e`: position, next position, offset and current character -/
theorem dangling_exponent_restores (src : Bytes) (fuel : Nat) (s : St) (h : Inv src s) (he : s.ch = 101 ∨ s.ch = 69)
    (hd : isDigit (if (next src s).ch = 43 ∨ (next src s).ch = 45 then next src (next src s) else next src s).ch = false) :
    scanExponent src fuel s = s := scanExponent_dangling fuel h he hd

/-- the initial state satisfies the invariant and every `Scan()` / `ScanRegex()` call preserves it (all loops, strings with every
escape form, regexes, comments, line continuations, CR handling, the exponent un-read) -/
theorem scan_preserves_inv (src : Bytes) (fuel : Nat) (s : St) (h : Inv src s) :
    Inv src (init src) ∧ Inv src (scanTok src fuel s).1 ∧ Inv src (scanRegex src fuel s).1 :=
  ⟨init_inv src, (scanTok_ok fuel h).1, scanRegex_inv fuel h⟩

/-! ## the headline statements -/

/-- the headline: every token of every token stream (any source, any pattern of `ScanRegex()` calls after DIV / DIV_ASSIGN) other than
EOF / ILLEGAL carries the true line and column of a real source byte — the byte at which the lexer started the token (`t.off`; for a
REGEX token the opening slash) -/
theorem lex_pos_correct (src : Bytes) (bits : List Bool) (t : Token) (hm : t ∈ lex src bits)
    (h1 : t.tok ≠ T.EOF) (h2 : t.tok ≠ T.ILLEGAL) :
    t.off < src.length ∧ t.pos = trueLineCol src t.off ∧ byteAt src t.off ≠ 0 := by
  rcases lexLoop_tokOK (fuelFor src) (fuelFor src) (init src) bits (init_inv src) t hm with h | ⟨h, _⟩
  · exact h
  · rcases h with h | h
    · exact absurd h h2
    · exact absurd h h1

/-- what `Scan()` guarantees when it returns DIV or DIV_ASSIGN (the only tokens after which a client may call `ScanRegex()`): the lexer
stands directly behind the `/` or `/=`, which is why `pos.Column -= 1` / `-= 2` lands on the slash -/
theorem scan_div_post (src : Bytes) (fuel : Nat) (s : St) (h : Inv src s) :
    DivPost src (scanTok src fuel s).1 (scanTok src fuel s).2 := scanTok_div fuel h

/-- every error position the lexer reports (ILLEGAL from `Scan()` or `ScanRegex()`), and the EOF position, designates a byte offset
of the source, the end of the source included — for every source and every pattern of ScanRegex calls -/
theorem error_pos_in_source (src : Bytes) (bits : List Bool) (t : Token) (hm : t ∈ lex src bits)
    (_h : t.tok = T.ILLEGAL ∨ t.tok = T.EOF) : ∃ o, o ≤ src.length ∧ t.pos = trueLineCol src o := by
  rcases lexLoop_tokOK (fuelFor src) (fuelFor src) (init src) bits (init_inv src) t hm with h' | ⟨_, h'⟩
  · exact atByte_posInSrc h'
  · exact h'

/-- consequence for a client that reports errors at token positions (the parser's `p.pos`): every position in the stream is inside
the source -/
theorem token_pos_in_source (src : Bytes) (bits : List Bool) (t : Token) (hm : t ∈ lex src bits) :
    ∃ o, o ≤ src.length ∧ t.pos = trueLineCol src o := by
  rcases lexLoop_tokOK (fuelFor src) (fuelFor src) (init src) bits (init_inv src) t hm with h' | ⟨_, h'⟩
  · exact atByte_posInSrc h'
  · exact h'

/-- termination: the model is a total function by construction (every Go loop is a structural recursion on fuel); this theorem says
the fuel `src.length + 2` is never what stops the client loop — for every source and every pattern of ScanRegex calls the token stream
ends in EOF or ILLEGAL -/
theorem lex_total (src : Bytes) (bits : List Bool) :
    ∃ t, (lex src bits).getLast? = some t ∧ (t.tok = T.EOF ∨ t.tok = T.ILLEGAL) :=
  lexLoop_total (fuelFor src) (fuelFor src) (init src) bits (init_inv src) (by unfold fuelFor; omega)

/-- each `Scan()` either reports EOF / ILLEGAL or moves the lexer forward by at least one byte, the exponent un-read included -/
theorem scan_consumes (src : Bytes) (fuel : Nat) (s : St) (h : Inv src s) :
    (scan src fuel s).2.tok = T.EOF ∨ (scan src fuel s).2.tok = T.ILLEGAL ∨ s.offset < (scan src fuel s).1.offset :=
  scan_progress fuel h

/-- with the fuel `lex` uses, every inner loop of the model stops by the exit condition of the Go loop it stands for (so the fuel-bounded
model and the unbounded Go loops coincide): character-class loops, the blank/continuation loop, `parseString`, the regex loop -/
theorem loops_exit_by_condition (src : Bytes) (s : St) (h : Inv src s) :
    (∀ p : UInt8 → Bool, p 0 = false → p (whileCh src p (fuelFor src) s).ch = false) ∧
    ((skipWs src (fuelFor src) s).2 = true ∨ isWs (skipWs src (fuelFor src) s).1.ch = false) ∧
    (∀ q acc, (∃ m, (parseString src q (fuelFor src) s acc).2 = .error m) ∨
       (parseString src q (fuelFor src) s acc).1.ch = q ∨ (parseString src q (fuelFor src) s acc).1.ch = 0) ∧
    (∀ acc, (∃ m, (regexLoop src (fuelFor src) s acc).2 = .error m) ∨ (regexLoop src (fuelFor src) s acc).1.ch = 47) := by
  have hn : src.length + 2 ≤ fuelFor src + s.offset := by unfold fuelFor; omega
  exact ⟨fun p hp => whileCh_exits p hp _ s h hn, skipWs_exits _ s h hn, fun q acc => parseString_exits q _ s acc h hn,
    fun acc => regexLoop_exits _ s acc h hn⟩

/-- the offset a token is positioned at holds a byte the lexer does not skip — not a blank, tab, CR, continuation backslash or `#` —
i.e. the position is taken at the token's own first byte, not inside the white space or comment before it -/
theorem first_byte_not_skipped (src : Bytes) (bits : List Bool) (t : Token) (hm : t ∈ lex src bits)
    (h1 : t.tok ≠ T.EOF) (h2 : t.tok ≠ T.ILLEGAL) : isWs (byteAt src t.off) = false ∧ byteAt src t.off ≠ 35 := by
  rcases lexLoop_first (fuelFor src) (init src) bits (init_inv src) t hm with h | h | h
  · exact absurd h h1
  · exact absurd h h2
  · exact h

/-- the first guard of the CLI's `showSourceLine` (`pos.Line < 1 || pos.Line > len(bytes.Split(src, "\n"))`) never fires for a position the
lexer reports: the line exists (there are `1 + #newlines` lines), and line and column are at least 1 -/
theorem reported_line_exists (src : Bytes) (bits : List Bool) (t : Token) (hm : t ∈ lex src bits) :
    1 ≤ t.pos.line ∧ t.pos.line ≤ 1 + (src.filter (· = 10)).length ∧ 1 ≤ t.pos.col := by
  obtain ⟨o, _, hp⟩ := token_pos_in_source src bits t hm
  rw [hp]
  refine ⟨by simp [trueLineCol, lineOf], ?_, by simp [trueLineCol, colOf]⟩
  show lineOf src o ≤ _
  unfold lineOf
  have := ((List.take_sublist o src).filter (fun b => decide (b = 10))).length_le
  omega

/-! ## non-vacuity: the hypotheses are met by concrete non-trivial instances -/

/-- `1.5⏎ ==` : positions across a line end -/
example : (lex [49, 46, 53, 10, 32, 61, 61] []).map (fun t => (t.pos.line, t.pos.col, t.tok, t.off)) =
    [(1, 1, T.NUMBER, 0), (1, 4, T.NEWLINE, 3), (2, 2, T.EQUALS, 5), (2, 4, T.EOF, 7)] := by decide

/-- `1e⏎x` : the exponent un-read across a newline (F05 witness): NAME `e` at 1:2, NEWLINE at 1:3, `x` at 2:1 -/
example : (lex [49, 101, 10, 120] []).map (fun t => (t.pos.line, t.pos.col, t.tok, t.off)) =
    [(1, 1, T.NUMBER, 0), (1, 2, T.NAME, 1), (1, 3, T.NEWLINE, 2), (2, 1, T.NAME, 3), (2, 2, T.EOF, 4)] := by decide

/-- `1e+\r==` : two characters un-read before a carriage return -/
example : (lex [49, 101, 43, 13, 61, 61] []).map (fun t => (t.pos.line, t.pos.col, t.tok, t.off)) =
    [(1, 1, T.NUMBER, 0), (1, 2, T.NAME, 1), (1, 3, T.ADD, 2), (1, 4, T.EQUALS, 4), (1, 6, T.EOF, 6)] := by decide

/-- `"\` (G03-1 witness): the error position is the end of the source, 1:3 -/
example : (lex [34, 92] []).map (fun t => (t.pos.line, t.pos.col, t.tok)) = [(1, 3, T.ILLEGAL)] ∧
    trueLineCol [34, 92] 2 = ⟨1, 3⟩ := by decide

/-- `x /a\/b/` with ScanRegex after the DIV: REGEX token at the slash -/
example : (lex [120, 32, 47, 97, 92, 47, 98, 47] [true]).map (fun t => (t.pos.line, t.pos.col, t.tok, t.off, t.val)) =
    [(1, 1, T.NAME, 0, [120]), (1, 3, T.DIV, 2, []), (1, 3, T.REGEX, 2, [97, 47, 98]), (1, 9, T.EOF, 8, [])] := by decide

/-- the invariant's hypotheses of `unread_undoes_next` are met in a real state: after `NewLexer("e\n")` -/
example : G [101, 10] (init [101, 10]) ∧ (init [101, 10]).ch ≠ 0 ∧ unread [101, 10] (next [101, 10] (init [101, 10])) = init [101, 10] := by
  refine ⟨⟨by decide, by decide, by decide, by decide, by decide⟩, by decide, by decide⟩

end GoawkModel.C03
