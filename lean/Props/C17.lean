import Proofs.C17
import GoawkModel.Generated.C17Kinds
/-!
# C17 — Go functions exposed to AWK convert arguments and results as documented

Theorems over the model `GoawkModel.C17` (checkNativeFunc, validNativeType, toNative, fromNative, callNative, the resolver's
argument-count rule). Quantifiers are unbounded: every signature (`Sig` over all 27 reflect kinds, named or not, nested slices),
every argument list, every Go function body.
-/
namespace GoawkModel.C17.Props
open GoawkModel GoawkModel.C17
set_option linter.unusedSimpArgs false

/-! ## regenerated facts: the source text of the modelled functions (case lists and the statements of every case) -/

theorem gen_matches_toNative : Generated.C17Kinds.toNativeCases = [
  ("Bool", "return reflect.ValueOf(v.boolean())"),
  ("Int", "return reflect.ValueOf(int(v.num()))"),
  ("Int8", "return reflect.ValueOf(int8(v.num()))"),
  ("Int16", "return reflect.ValueOf(int16(v.num()))"),
  ("Int32", "return reflect.ValueOf(int32(v.num()))"),
  ("Int64", "return reflect.ValueOf(int64(v.num()))"),
  ("Uint", "return reflect.ValueOf(uint(int64(v.num())))"),
  ("Uint8", "return reflect.ValueOf(uint8(int64(v.num())))"),
  ("Uint16", "return reflect.ValueOf(uint16(int64(v.num())))"),
  ("Uint32", "return reflect.ValueOf(uint32(int64(v.num())))"),
  ("Uint64", "return reflect.ValueOf(uint64(int64(v.num())))"),
  ("Float32", "return reflect.ValueOf(float32(v.num()))"),
  ("Float64", "return reflect.ValueOf(v.num())"),
  ("String", "return reflect.ValueOf(p.toString(v))"),
  ("Slice", "if typ.Elem().Kind() != reflect.Uint8 { panic(fmt.Sprintf(\"unexpected argument slice: %s\", typ.Elem().Kind())) } ; s := p.toString(v) ; b := reflect.MakeSlice(typ, len(s), len(s)) ; reflect.Copy(b, reflect.ValueOf(s)) ; return b"),
  ("default", "panic(fmt.Sprintf(\"unexpected argument type: %s\", typ.Kind()))")
] := by rfl

theorem gen_matches_fromNative : Generated.C17Kinds.fromNativeCases = [
  ("Bool", "return boolean(v.Bool())"),
  ("Int,Int8,Int16,Int32,Int64", "return num(float64(v.Int()))"),
  ("Uint,Uint8,Uint16,Uint32,Uint64", "return num(float64(v.Uint()))"),
  ("Float32,Float64", "return num(v.Float())"),
  ("String", "return str(v.String())"),
  ("Slice", "if v.Type().Elem().Kind() == reflect.Uint8 { return str(string(v.Bytes())) } ; panic(fmt.Sprintf(\"unexpected return slice: %s\", v.Type().Elem().Kind()))"),
  ("default", "panic(fmt.Sprintf(\"unexpected return type: %s\", v.Kind()))")
] := by rfl

theorem gen_matches_validNativeType : Generated.C17Kinds.validNativeTypeCases = [
  ("Bool", "return true"),
  ("Int,Int8,Int16,Int32,Int64", "return true"),
  ("Uint,Uint8,Uint16,Uint32,Uint64", "return true"),
  ("Float32,Float64", "return true"),
  ("String", "return true"),
  ("Slice", "return typ.Elem().Kind() == reflect.Uint8"),
  ("default", "return false")
] := by rfl

theorem gen_matches_checkNumOut : Generated.C17Kinds.checkNumOutCases = [
  ("0", ""),
  ("1", "if !validNativeType(typ.Out(0)) { return newError(\"native function %q return value is not int or string\", name) }"),
  ("2", "if !validNativeType(typ.Out(0)) { return newError(\"native function %q first return value is not int or string\", name) } ; if typ.Out(1) != errorType { return newError(\"native function %q second return value is not an error\", name) }"),
  ("default", "return newError(\"native function %q returns more than two values\", name)")
] := by rfl

theorem gen_matches_callNumOut : Generated.C17Kinds.callNumOutCases = [
  ("0", "return null(), nil"),
  ("1", "return fromNative(outs[0]), nil"),
  ("2", "if !outs[1].IsNil() { return null(), outs[1].Interface().(error) } ; return fromNative(outs[0]), nil"),
  ("default", "panic(fmt.Sprintf(\"unexpected number of return values: %d\", len(outs)))")
] := by rfl

theorem gen_matches_callNativePrefix : Generated.C17Kinds.callNativePrefix = ["f := p.nativeFuncs[index]", "minIn := len(f.in)", "var variadicType reflect.Type", "if f.isVariadic { variadicType = f.in[len(f.in)-1].Elem() minIn-- }", "values := make([]reflect.Value, 0, 7)", "for i, a := range args { var argType reflect.Type if !f.isVariadic || i < len(f.in)-1 { argType = f.in[i] } else { argType = variadicType } arg := p.toNative(a, argType) if arg.Type() != argType { arg = arg.Convert(argType) } values = append(values, arg) }", "for i := len(args); i < minIn; i++ { values = append(values, reflect.Zero(f.in[i])) }", "outs := f.value.Call(values)"] := by rfl

theorem gen_matches_checkGuards : Generated.C17Kinds.checkNativeFuncGuards = ["if lexer.KeywordToken(name) != lexer.ILLEGAL { return newError(\"can't use keyword %q as native function name\", name) }", "typ := reflect.TypeOf(f)", "if typ == nil || typ.Kind() != reflect.Func { return newError(\"native function %q is not a function\", name) }", "if reflect.ValueOf(f).IsNil() { return newError(\"native function %q is nil\", name) }", "for i := 0; i < typ.NumIn(); i++ { param := typ.In(i) if typ.IsVariadic() && i == typ.NumIn()-1 { param = param.Elem() } if !validNativeType(param) { return newError(\"native function %q param %d is not int or string\", name, i) } }", "return nil"] := by rfl

theorem gen_matches_initNativeFuncs : Generated.C17Kinds.initNativeFuncsStmts = ["for name, f := range funcs { err := checkNativeFunc(name, f) if err != nil { return err } }", "names := make([]string, 0, len(funcs))", "for name := range funcs { names = append(names, name) }", "sort.Strings(names)", "p.nativeFuncs = make([]nativeFunc, len(names))", "for i, name := range names { f := funcs[name] typ := reflect.TypeOf(f) in := make([]reflect.Type, typ.NumIn()) for j := 0; j < len(in); j++ { in[j] = typ.In(j) } p.nativeFuncs[i] = nativeFunc{ isVariadic: typ.IsVariadic(), in: in, value: reflect.ValueOf(f), } }", "return nil"] ∧
    Generated.C17Kinds.setupGuard = "if p.nativeFuncs == nil { err := p.initNativeFuncs(config.Funcs) if err != nil { return err } }" := ⟨by rfl, by rfl⟩

/-- the resolver indexes every key of the Funcs map in sorted order, before the first pass, without skipping names that AWK
functions override — the same key set `initNativeFuncs` indexes (`gen_matches_initNativeFuncs`) -/
theorem gen_matches_resolverIndex : Generated.C17Kinds.resolverIndexStmts = ["funcInfo := make(map[string]FuncInfo)", "var nativeNames []string", "for name := range config.Funcs { nativeNames = append(nativeNames, name) }", "sort.Strings(nativeNames)", "for i, name := range nativeNames { funcInfo[name] = FuncInfo{Native: true, Index: i} }", "ast.Walk(&callGraph, prog)"] := by rfl

theorem gen_matches_resolver : Generated.C17Kinds.resolverNativeBranch = "{ typ := reflect.TypeOf(v.nativeFuncs[n.Name]) if typ == nil || typ.Kind() != reflect.Func { panic(ast.PosErrorf(n.Pos, \"native function %q is not a function\", n.Name)) } numParams = typ.NumIn() if typ.IsVariadic() { numParams = 1000000000 } }" ∧ Generated.C17Kinds.resolverVariadicCap = 1000000000 := ⟨rfl, rfl⟩

theorem gen_matches_keywords : Generated.C17Kinds.keywords = ["BEGIN", "END", "atan2", "break", "close", "continue", "cos", "delete", "do", "else", "exit", "exp", "fflush", "for", "function", "getline", "gsub", "if", "in", "index", "int", "length", "log", "match", "next", "nextfile", "print", "printf", "rand", "return", "sin", "split", "sprintf", "sqrt", "srand", "sub", "substr", "system", "tolower", "toupper", "while"] := by rfl

/-- the kinds `validNativeType` accepts, `toNative` converts and `fromNative` converts back are the same set, read off the
regenerated case lists (so adding a kind to one switch only breaks this) -/
theorem gen_kind_sets_agree :
    Generated.C17Kinds.toNativeKinds = Generated.C17Kinds.validNativeTypeKinds ∧
    Generated.C17Kinds.fromNativeKinds = Generated.C17Kinds.validNativeTypeKinds ∧
    Generated.C17Kinds.validNativeTypeKinds =
      [RKind.bool, .int, .int8, .int16, .int32, .int64, .uint, .uint8, .uint16, .uint32, .uint64, .float32, .float64, .string, .slice].map RKind.name ∧
    Generated.C17Kinds.keywordBytes.length = Generated.C17Kinds.keywords.length := by
  decide

/-! ## which signatures are accepted -/

/-- accepted at set-up ⇔ not named like a keyword ∧ not a nil function value ∧ every parameter (the element type for the variadic
tail) is of a documented kind ∧ the results are none, one documented value, or a documented value and `error` -/
theorem sig_accept_iff (name : Bytes) (s : Sig) (isNil : Bool) :
    (checkNativeFunc (isKeyword name) (.func s isNil)).1 = .ok () ↔ isKeyword name = false ∧ isNil = false ∧ DocumentedShape s :=
  check_ok_iff _ s isNil

/-- a non-function value is an error -/
theorem nonfunc_rejected (name : Bytes) (k : RKind) : ∃ e, checkNativeFunc (isKeyword name) (.other k) = (.err [], some e) := by
  unfold checkNativeFunc; cases isKeyword name <;> simp

/-- every function of undocumented shape, or nil, or named like a keyword, gets an error value (never a panic, never accepted) -/
theorem bad_shape_is_error (name : Bytes) (s : Sig) (isNil : Bool)
    (h : ¬ (isKeyword name = false ∧ isNil = false ∧ DocumentedShape s)) :
    ∃ e, checkNativeFunc (isKeyword name) (.func s isNil) = (.err [], some e) := by
  have h' := mt (sig_accept_iff name s isNil).1 h
  generalize isKeyword name = kw at h'
  unfold checkNativeFunc at h' ⊢
  cases kw with
  | true => simp
  | false =>
    cases isNil with
    | true => simp
    | false =>
    simp only [Bool.false_eq_true, if_false] at h' ⊢
    cases h1 : checkParams s s.params 0 with
    | some e => exact ⟨e, rfl⟩
    | none =>
      simp only [h1] at h'
      cases h2 : checkResults s.results with
      | some e => exact ⟨e, rfl⟩
      | none => simp [h2] at h'

/-- everything that is not a function — a value of another type, or the untyped nil (G17-1, repaired) — is rejected with an
error, whatever its name -/
theorem other_values_rejected (name : Bytes) (f : FVal) (h : ∀ s n, f ≠ .func s n) :
    ∃ e, checkNativeFunc (isKeyword name) f = (.err [], some e) := by
  cases f with
  | func s n => exact absurd rfl (h s n)
  | other k => exact nonfunc_rejected name k
  | untypedNil => unfold checkNativeFunc; cases isKeyword name <;> simp

/-- set-up never panics, for any value under any name -/
theorem setup_never_panics (name : Bytes) (f : FVal) : ∀ w, (checkNativeFunc (isKeyword name) f).1 ≠ .panic w := by
  intro w
  unfold checkNativeFunc
  cases isKeyword name with
  | true => simp
  | false =>
    cases f with
    | untypedNil => simp
    | other k => simp
    | func s n =>
      cases n with
      | true => simp
      | false =>
        simp only [Bool.false_eq_true, if_false]
        cases checkParams s s.params 0 <;> simp
        cases checkResults s.results <;> simp

/-! ## the conversion table -/

/-- truncation toward zero, characterised: for a finite double `±m·2^e` (m, e as decoded from the bits) the result `t` has the
double's sign and `|t| ≤ |x| < |t| + 1` -/
theorem trunc_spec (b : Nat) (t : Int) (h : f64Trunc b = some t) :
    let p := f64Parts b
    let m := if p.exp == 0 then p.mant else p.mant + 2 ^ 52
    let e : Int := (if p.exp == 0 then 1 else (p.exp : Int)) - 1075
    p.exp ≠ 2047 ∧ (t < 0 → p.neg = true) ∧ (0 < t → p.neg = false) ∧
    (e ≥ 0 → t.natAbs = m * 2 ^ e.toNat) ∧
    (e < 0 → t.natAbs * 2 ^ (-e).toNat ≤ m ∧ m < (t.natAbs + 1) * 2 ^ (-e).toNat) := by
  intro p m e
  simp only [f64Trunc] at h
  split at h
  · cases h
  · rename_i hne
    have hne' : p.exp ≠ 2047 := by simpa using hne
    injection h with h
    generalize ha : (if e ≥ 0 then m <<< e.toNat else m >>> (-e).toNat) = a at h
    have hab : t.natAbs = a := by
      rw [← h]; split <;> simp
    refine ⟨hne', ?_, ?_, ?_, ?_⟩
    · intro ht; cases hp : p.neg with
      | true => rfl
      | false => rw [show (f64Parts b).neg = false from hp] at h; simp at h; omega
    · intro ht; cases hp : p.neg with
      | false => rfl
      | true => rw [show (f64Parts b).neg = true from hp] at h; simp at h; omega
    · intro he
      rw [if_pos he] at ha
      rw [hab, ← ha, Nat.shiftLeft_eq]
    · intro he
      rw [if_neg (by omega)] at ha
      rw [hab, ← ha, Nat.shiftRight_eq_div_pow]
      have hpos : 0 < 2 ^ (-e).toNat := Nat.pow_pos (by decide)
      refine ⟨Nat.div_mul_le_self _ _, ?_⟩
      have := Nat.lt_mul_div_succ m hpos
      rw [Nat.mul_comm] at this; exact this

/-- `toNative`: the payload each documented kind receives. Integer kinds receive the truncated number whenever it is in the
kind's range (outside: the amd64 conversion, which the model carries and the harness checks, but which no theorem promises);
unsigned 64-bit kinds go through `int64`, so their range here is `[0, 2^63)`. Named types behave as their kind. -/
theorem conv_table (v : AVal) (n : Bool) :
    toNative v (.prim .bool n) = .ok (.prim .bool false, .b v.truth) ∧
    toNative v (.prim .float64 n) = .ok (.prim .float64 false, .f64 v.num) ∧
    toNative v (.prim .float32 n) = .ok (.prim .float32 false, .f32 (f64to32 v.num)) ∧
    toNative v (.prim .string n) = .ok (.prim .string false, .s v.str) ∧
    (∀ e m, e.kind = .uint8 → toNative v (.slice e m) = .ok (.slice e m, .s v.str)) ∧
    (∀ t, f64Trunc v.num = some t →
      (-128 ≤ t ∧ t < 128 → toNative v (.prim .int8 n) = .ok (.prim .int8 false, .i t)) ∧
      (-32768 ≤ t ∧ t < 32768 → toNative v (.prim .int16 n) = .ok (.prim .int16 false, .i t)) ∧
      (-2147483648 ≤ t ∧ t < 2147483648 → toNative v (.prim .int32 n) = .ok (.prim .int32 false, .i t)) ∧
      (-9223372036854775808 ≤ t ∧ t < 9223372036854775808 →
        toNative v (.prim .int64 n) = .ok (.prim .int64 false, .i t) ∧ toNative v (.prim .int n) = .ok (.prim .int false, .i t)) ∧
      (0 ≤ t ∧ t < 256 → toNative v (.prim .uint8 n) = .ok (.prim .uint8 false, .i t)) ∧
      (0 ≤ t ∧ t < 65536 → toNative v (.prim .uint16 n) = .ok (.prim .uint16 false, .i t)) ∧
      (0 ≤ t ∧ t < 4294967296 → toNative v (.prim .uint32 n) = .ok (.prim .uint32 false, .i t)) ∧
      (0 ≤ t ∧ t < 9223372036854775808 →
        toNative v (.prim .uint64 n) = .ok (.prim .uint64 false, .i t) ∧ toNative v (.prim .uint n) = .ok (.prim .uint false, .i t))) := by
  refine ⟨rfl, rfl, rfl, rfl, ?_, ?_⟩
  · intro e m he
    have h1 : (Ty.slice e m).elemKind? = some .uint8 := by simp [Ty.elemKind?, he]
    have h2 : (Ty.slice e m).kind = .slice := rfl
    simp [toNative, h1, h2]
  · intro t ht
    refine ⟨?_, ?_, ?_, ?_, ?_, ?_, ?_, ?_⟩
    · intro ⟨h1, h2⟩; simp [toNative, Ty.kind, cvt32_of_trunc _ t ht (by omega) (by omega), wrapSigned8_id t h1 h2]
    · intro ⟨h1, h2⟩; simp [toNative, Ty.kind, cvt32_of_trunc _ t ht (by omega) (by omega), wrapSigned16_id t h1 h2]
    · intro ⟨h1, h2⟩; simp [toNative, Ty.kind, cvt32_of_trunc _ t ht h1 h2]
    · intro ⟨h1, h2⟩; simp [toNative, Ty.kind, cvt64_of_trunc _ t ht h1 h2]
    · intro ⟨h1, h2⟩; simp [toNative, Ty.kind, cvt64_of_trunc _ t ht (by omega) (by omega), wrapUnsigned8_id t h1 h2]
    · intro ⟨h1, h2⟩; simp [toNative, Ty.kind, cvt64_of_trunc _ t ht (by omega) (by omega), wrapUnsigned16_id t h1 h2]
    · intro ⟨h1, h2⟩; simp [toNative, Ty.kind, cvt64_of_trunc _ t ht (by omega) (by omega), wrapUnsigned32_id t h1 h2]
    · intro ⟨h1, h2⟩; simp [toNative, Ty.kind, cvt64_of_trunc _ t ht (by omega) (by omega), wrapUnsigned64_id t h1 (by omega)]

/-- results: bool → 1/0, integers → the number (rounded to a double), floats → the number, string kinds → a string value -/
theorem result_table (n : Bool) :
    (∀ x, fromNative (.prim .bool n) (.b x) = .ok (.num (if x then 0x3ff0000000000000 else 0))) ∧
    (∀ k x, k ∈ [RKind.int, .int8, .int16, .int32, .int64, .uint, .uint8, .uint16, .uint32, .uint64] →
      fromNative (.prim k n) (.i x) = .ok (.num (intToF64 x))) ∧
    (∀ x, fromNative (.prim .float64 n) (.f64 x) = .ok (.num x)) ∧
    (∀ x, fromNative (.prim .float32 n) (.f32 x) = .ok (.num (f32to64 x))) ∧
    (∀ x, fromNative (.prim .string n) (.s x) = .ok (.str x)) ∧
    (∀ e m x, e.kind = .uint8 → fromNative (.slice e m) (.s x) = .ok (.str x) ∧ fromNative (.slice e m) .nilSlice = .ok (.str [])) := by
  refine ⟨fun x => rfl, ?_, fun x => rfl, fun x => rfl, fun x => rfl, ?_⟩
  · intro k x hk
    simp only [List.mem_cons, List.mem_nil_iff, or_false] at hk
    rcases hk with h | h | h | h | h | h | h | h | h | h <;> subst h <;> rfl
  · intro e m x he
    have h1 : (Ty.slice e m).elemKind? = some .uint8 := by simp [Ty.elemKind?, he]
    have h2 : (Ty.slice e m).kind = .slice := rfl
    simp [fromNative, h1, h2]

/-! ## the call -/

/-- what the Go function receives: the converted arguments followed by the zero value of every missing non-variadic parameter -/
theorem zero_fill (s : Sig) (args : List AVal) (vs : List (Ty × NVal)) (h : buildValues s args = .ok vs) :
    ∃ cs, convArgs s args 0 = .ok cs ∧
      vs = cs ++ ((s.params.take (minIn s)).drop args.length).map (fun t => (t, zeroOf t)) ∧
      (∀ t, zeroOf t = match t.kind with
        | .bool => .b false | .float32 => .f32 0 | .float64 => .f64 0 | .string => .s [] | .slice => .nilSlice | _ => .i 0) := by
  simp only [buildValues] at h
  cases hc : convArgs s args 0 with
  | ok cs => simp only [hc] at h; injection h with h; exact ⟨cs, rfl, by rw [← h]; rfl, fun t => by unfold zeroOf; rfl⟩
  | err m => simp [hc] at h
  | panic w => simp [hc] at h

/-- every argument at or beyond the variadic parameter's position is converted to the variadic element type -/
theorem variadic_spread (s : Sig) (e : Ty) (n : Bool) (hv : s.variadic = true) (hl : s.params.getLast? = some (.slice e n))
    (i : Nat) (hi : s.params.length - 1 ≤ i) : argType? s i = some e := by
  have : ¬ i < s.params.length - 1 := by omega
  simp [argType?, hv, this, hl]

/-- …and arguments before it (all arguments of a non-variadic function) to the parameter's own type -/
theorem fixed_arg_type (s : Sig) (i : Nat) (hi : i < minIn s) : argType? s i = s.params[i]? := argType_fixed s i hi

/-- each argument is converted with `toNative` at the type `argType?` gives for its position, in order -/
theorem conv_args_pointwise (s : Sig) : ∀ (args : List AVal) (k : Nat) (vs : List (Ty × NVal)), convArgs s args k = .ok vs →
    vs.length = args.length ∧ ∀ i (h : i < args.length), ∃ t x y, argType? s (k + i) = some t ∧ toNative args[i] t = .ok x ∧
      convertTo x t = .ok y ∧ vs[i]? = some y
  | [], k, vs, h => by simp [convArgs] at h; subst h; simp
  | a :: rest, k, vs, h => by
    simp only [convArgs] at h
    cases ht : argType? s k with
    | none => simp [ht] at h
    | some t =>
      simp only [ht] at h
      cases hx : toNative a t with
      | err m => simp [hx] at h
      | panic w => simp [hx] at h
      | ok x =>
        simp only [hx] at h
        cases hc : convertTo x t with
        | err m => simp [hc] at h
        | panic w => simp [hc] at h
        | ok y =>
          simp only [hc] at h
          cases hr : convArgs s rest (k + 1) with
          | err m => simp [hr] at h
          | panic w => simp [hr] at h
          | ok ys =>
            simp only [hr] at h
            injection h with h; subst h
            obtain ⟨hlen, hpt⟩ := conv_args_pointwise s rest (k + 1) ys hr
            refine ⟨by simp [hlen], ?_⟩
            intro i hi
            cases i with
            | zero => exact ⟨t, x, y, by simpa using ht, by simpa using hx, hc, by simp⟩
            | succ i =>
              obtain ⟨t', x', y', h1, h2, h3, h4⟩ := hpt i (by simpa using hi)
              exact ⟨t', x', y', by simpa [Nat.add_assoc, Nat.add_comm 1 i] using h1, by simpa using h2, h3, by simpa using h4⟩

/-- one result: the call returns the converted first result of the Go function -/
theorem result_conv (s : Sig) (args : List AVal) (body : Body) (vs : List (Ty × NVal)) (r : Ty)
    (hb : buildValues s args = .ok vs) (ha : callAccepts s false vs = true) :
    (s.results = [] → callNative s false args body = (.ok .null, some vs)) ∧
    (s.results = [r] → callNative s false args body = (fromNative r (body vs).1, some vs)) ∧
    (s.results = [r, .error] → (body vs).2 = none → callNative s false args body = (fromNative r (body vs).1, some vs)) := by
  refine ⟨?_, ?_, ?_⟩ <;> intro hr <;> simp [callNative, hb, ha, hr]
  intro h2; simp [h2]

/-- a non-nil error aborts the call with exactly that error, whatever the first result is -/
theorem error_aborts (s : Sig) (args : List AVal) (body : Body) (vs : List (Ty × NVal)) (r : Ty) (m : Bytes)
    (hb : buildValues s args = .ok vs) (ha : callAccepts s false vs = true)
    (hr : s.results = [r, .error]) (he : (body vs).2 = some m) :
    callNative s false args body = (.err m, some vs) := by
  simp [callNative, hb, ha, hr, he]

/-- the parse-time rule: more arguments than parameters to a non-variadic function is an error -/
theorem too_many_is_parse_error (s : Sig) (isNil : Bool) (nargs : Nat) (hv : s.variadic = false) (hn : nargs > s.params.length) :
    resolveCall (.func s isNil) nargs = .tooManyArgs := by
  simp [resolveCall, hv, hn]

/-- …and it is needed: without it the call itself would index past the parameter list -/
theorem too_many_would_panic (s : Sig) (args : List AVal) (body : Body) (hv : s.variadic = false)
    (hok : ∀ j p, s.params[j]? = some p → validNativeType (effParam s j p) = true)
    (hn : args.length > s.params.length) : ∃ w, (callNative s false args body).1 = .panic w := by
  have hwf : s.WF = true := by simp [Sig.WF, hv]
  -- the first params.length arguments convert; the next one has no type
  have key : ∀ (args : List AVal) (k : Nat), k + args.length > s.params.length → k ≤ s.params.length →
      ∃ w, convArgs s args k = .panic w := by
    intro args
    induction args with
    | nil => intro k h1 h2; simp at h1; omega
    | cons a rest ih =>
      intro k h1 h2
      simp only [convArgs]
      by_cases hk : k < s.params.length
      · obtain ⟨t, ht, hvt⟩ := argType_valid s hwf hok k (fun _ => hk)
        obtain ⟨x, hx, hc⟩ := toNative_convert_ok a t hvt
        obtain ⟨w, hw⟩ := ih (k + 1) (by simp at h1; omega) (by omega)
        exact ⟨w, by simp [ht, hx, hc, hw]⟩
      · have : argType? s k = none := by simp [argType?, hv]; omega
        exact ⟨"index out of range: f.in[i]", by simp [this]⟩
  obtain ⟨w, hw⟩ := key args 0 (by omega) (by omega)
  exact ⟨w, by simp [callNative, buildValues, hw]⟩

/-- what the Go type system guarantees of the function's first result -/
def BodyTyped (s : Sig) (body : Body) : Prop := ∀ vs r, s.results.head? = some r → (body vs).1.fits r = true

/-- accepted at set-up ∧ accepted argument count ⇒ no panic at call time: not in `toNative` (every parameter kind is convertible),
not in `Convert` (named types), not in `f.in[i]`, not in `reflect.Value.Call` (the function is not nil — G17-2, repaired — and
count and types are right), not in `fromNative`, not in the result-count switch — for every signature, every argument list and
every function body -/
theorem never_panics (name : Bytes) (s : Sig) (isNil : Bool) (hwf : s.WF = true)
    (hc : (checkNativeFunc (isKeyword name) (.func s isNil)).1 = .ok ())
    (args : List AVal) (hr : resolveCall (.func s isNil) args.length = .ok) (body : Body) (hb : BodyTyped s body) :
    ∀ w, (callNative s isNil args body).1 ≠ .panic w := by
  obtain ⟨_, hnil, hparams, hres⟩ := (sig_accept_iff name s isNil).1 hc
  subst hnil
  have hp : ∀ j p, s.params[j]? = some p → validNativeType (effParam s j p) = true :=
    fun j p h => (validNativeType_iff _).2 (hparams j p h)
  have hn : s.variadic = false → args.length ≤ s.params.length := by
    intro hv
    simp only [resolveCall, hv] at hr
    by_cases h : args.length > s.params.length
    · simp [h] at hr
    · omega
  obtain ⟨cs, _, _, hbv, hacc⟩ := buildValues_ok s hwf hp args hn
  intro w
  simp only [callNative, hbv, hacc]
  rcases hres with h0 | ⟨r, h1, hd⟩ | ⟨r, h2, hd⟩
  · simp [h0]
  · obtain ⟨x, hx⟩ := fromNative_ok r (body (cs ++ zeroFill s args.length)).1 ((validNativeType_iff r).2 hd) (hb _ r (by simp [h1]))
    simp [h1, hx]
  · obtain ⟨x, hx⟩ := fromNative_ok r (body (cs ++ zeroFill s args.length)).1 ((validNativeType_iff r).2 hd) (hb _ r (by simp [h2]))
    cases he : (body (cs ++ zeroFill s args.length)).2 <;> simp [h2, hx, he]

/-- the nil check at set-up is needed: a nil function value that reached `callNative` would panic in `reflect.Value.Call` -/
theorem nil_func_would_panic : ∃ w, (callNative ⟨[.prim .int false], false, [.prim .int false]⟩ true [] (fun _ => (.i 0, none))).1 = .panic w :=
  ⟨"reflect.Value.Call rejects the call", by decide⟩

/-- …and it is made: a nil function value is rejected whatever its signature -/
theorem nil_func_rejected (name : Bytes) (s : Sig) : ∃ e, checkNativeFunc (isKeyword name) (.func s true) = (.err [], some e) :=
  bad_shape_is_error name s true (by simp)

/-! ## the resolver's index and the interpreter's table agree -/

theorem mem_insertBy (a x : Bytes) : ∀ l : List Bytes, x ∈ insertBy a l ↔ x = a ∨ x ∈ l
  | [] => by simp [insertBy]
  | b :: r => by
    simp only [insertBy]
    split
    · simp
    · simp [mem_insertBy a x r]; constructor <;> (intro h; rcases h with h | h | h <;> simp [h])

theorem mem_indexTable : ∀ (l : List Bytes) (x : Bytes), x ∈ indexTable l ↔ x ∈ l
  | [], x => by simp [indexTable]
  | a :: l, x => by
    have := mem_indexTable l x
    simp only [indexTable, List.foldr_cons] at this ⊢
    rw [mem_insertBy, this]; simp

/-- With the same Funcs map on both sides, a call of a name that is in the map and not defined in AWK reaches the Go function of
that name — whatever other entries the map has and whichever of them are overridden by AWK functions (their position in the
sorted key list does not matter, because neither side skips them). -/
theorem dispatch_correct (funcs awkDefined : List Bytes) (n : Bytes) (hn : n ∈ funcs) (ha : n ∉ awkDefined) :
    dispatch funcs funcs awkDefined n = .native n := by
  have hmem : n ∈ indexTable funcs := (mem_indexTable funcs n).2 hn
  simp only [dispatch, ha, hn, if_true, if_false]
  have hlt : (indexTable funcs).idxOf n < (indexTable funcs).length := List.idxOf_lt_length_of_mem hmem
  rw [List.getElem?_eq_getElem hlt]
  simp


/-- an AWK-defined function of the same name takes precedence -/
theorem dispatch_override (p r awkDefined : List Bytes) (n : Bytes) (h : n ∈ awkDefined) : dispatch p r awkDefined n = .awk n := by
  simp [dispatch, h]

/-- why both sides must use the same key set: if the resolver alone skipped the overridden name `a`, the call of `b` (index 0
on the resolver's side) would reach `a` in the interpreter's table -/
example : (indexTable [[97], [98]])[(indexTable [[98]]).idxOf [98]]? = some [97] := by decide
example : dispatch [[98], [97], [99]] [[98], [97], [99]] [[97]] [99] = .native [99] := by decide

/-! ## set-up histories on a reused interpreter -/

/-- every signature in the cached table was accepted by `checkNativeFunc` -/
def TableValid (t : Table) : Prop := ∀ n s, (n, s) ∈ t → (checkNativeFunc (isKeyword n) (.func s false)).1 = .ok ()

/-- a rejected set-up leaves the cache as it was: empty — so the next call validates again -/
theorem rejected_setup_keeps_cache (cache : Option Table) (funcs : List (Bytes × FVal)) (e : CheckErr)
    (h : (setupStep cache funcs).1 = some e) : cache = none ∧ (setupStep cache funcs).2 = none := by
  cases cache with
  | some t => simp [setupStep] at h
  | none =>
    refine ⟨rfl, ?_⟩
    simp only [setupStep] at h ⊢
    cases hc : checkAll funcs with
    | none => simp [hc] at h
    | some e' => rfl

/-- with an empty cache a call is judged on its own map: rejected iff some entry is not an acceptable function -/
theorem setup_fresh (funcs : List (Bytes × FVal)) :
    (setupStep none funcs).1 = checkAll funcs ∧ ((setupStep none funcs).2 = none ↔ (checkAll funcs).isSome = true) := by
  simp only [setupStep]
  cases checkAll funcs <;> simp

theorem checkAll_none_valid : ∀ (funcs : List (Bytes × FVal)), checkAll funcs = none → TableValid (buildTable funcs)
  | [], _ => by intro n s h; simp [buildTable] at h
  | (n0, f0) :: rest, h => by
    simp only [checkAll] at h
    have hchk : ∃ u, checkNativeFunc (isKeyword n0) f0 = (.ok (), u) ∧ checkAll rest = none := by
      generalize checkNativeFunc (isKeyword n0) f0 = res at h
      obtain ⟨o, u⟩ := res
      cases o with
      | ok a => exact ⟨u, rfl, by simpa using h⟩
      | err m => cases u <;> simp at h
      | panic w => cases u <;> simp at h
    obtain ⟨u, h0, hrest⟩ := hchk
    have ih := checkAll_none_valid rest hrest
    intro n s hmem
    simp only [buildTable, List.filterMap_cons] at hmem
    cases f0 with
    | func s0 isNil =>
      simp only [List.mem_cons] at hmem
      rcases hmem with heq | hmem
      · injection heq with hn hs; subst hn; subst hs
        have hok : (checkNativeFunc (isKeyword n) (.func s isNil)).1 = .ok () := by rw [h0]
        obtain ⟨hk, hnil, hd⟩ := (sig_accept_iff n s isNil).1 hok
        exact (sig_accept_iff n s false).2 ⟨hk, rfl, hd⟩
      · exact ih n s hmem
    | other k => exact ih n s hmem
    | untypedNil => exact ih n s hmem

/-- whatever sequence of `Execute` calls (valid maps, invalid maps, maps that change between calls) an interpreter has seen, its
cached table — if it has one — contains only signatures that passed `checkNativeFunc` -/
theorem history_cache_valid : ∀ (hist : List (List (Bytes × FVal))) (cache : Option Table),
    (∀ t, cache = some t → TableValid t) → ∀ t, runHistory cache hist = some t → TableValid t
  | [], cache, hc, t, h => hc t h
  | m :: rest, cache, hc, t, h => by
    apply history_cache_valid rest (setupStep cache m).2 _ t h
    intro t' ht'
    cases cache with
    | some t0 => simp [setupStep] at ht'; subst ht'; exact hc t0 rfl
    | none =>
      simp only [setupStep] at ht'
      cases hca : checkAll m with
      | some e => simp [hca] at ht'
      | none => simp [hca] at ht'; subst ht'; exact checkAll_none_valid m hca

/-- `never_panics` over histories: after any history starting from a new interpreter, a call through the cached table with an
accepted argument count never panics -/
theorem never_panics_history (hist : List (List (Bytes × FVal))) (t : Table) (h : runHistory none hist = some t)
    (n : Bytes) (s : Sig) (hmem : (n, s) ∈ t) (hwf : s.WF = true)
    (args : List AVal) (hr : resolveCall (.func s false) args.length = .ok) (body : Body) (hb : BodyTyped s body) :
    ∀ w, (callNative s false args body).1 ≠ .panic w :=
  never_panics n s false hwf (history_cache_valid hist none (by intro t h; cases h) t h n s hmem) args hr body hb

example : runHistory none [[([102], .other .int)], [([102], .func ⟨[.prim .int false], false, [.prim .int false]⟩ false)], [([102], .untypedNil)]] =
    some [([102], ⟨[.prim .int false], false, [.prim .int false]⟩)] := by decide
example : (setupStep none [([102], .func ⟨[.prim .complex64 false], false, []⟩ false)]) = (some (.param 0), none) := by decide

/-! ## non-vacuity -/

-- an accepted variadic signature with named types, called with a missing fixed argument and two spread ones
example : (checkNativeFunc (isKeyword [110, 102]) (.func ⟨[.prim .int8 true, .prim .string false, .slice (.prim .int64 true) false], true,
    [.slice (.prim .uint8 false) true, .error]⟩ false)).1 = .ok () := by decide
example : (callNative ⟨[.prim .int8 false, .prim .uint8 true, .slice (.prim .uint8 false) false], false, [.prim .int64 false, .error]⟩ false
    [⟨0x4069000000000000, true, [50, 48, 48]⟩, ⟨0xc008000000000000, true, [45, 51]⟩] (fun _ => (.i 9007199254740993, none))) =
    (.ok (.num 0x4340000000000000), some [(.prim .int8 false, .i (-56)), (.prim .uint8 true, .i 253), (.slice (.prim .uint8 false) false, .nilSlice)]) := by
  decide
example : f64Trunc 0xc007333333333333 = some (-2) := by decide   -- -2.9
example : isKeyword [112, 114, 105, 110, 116] = true ∧ isKeyword [110, 102] = false := by decide   -- "print", "nf"
example : resolveCall (.func ⟨[.prim .int false], false, []⟩ false) 2 = .tooManyArgs := by decide
example : DocumentedShape ⟨[.prim .int false, .slice (.slice (.prim .uint8 false) false) false], true, [.prim .bool false, .error]⟩ := by
  refine ⟨?_, Or.inr (Or.inr ⟨_, rfl, by simp [Documented, Ty.kind]⟩)⟩
  intro i p h
  match i, h with
  | 0, h => simp at h; subst h; simp [effParam, Documented, Ty.kind]
  | 1, h => simp at h; subst h; simp [effParam, Documented, Ty.kind, Ty.elemKind?]
  | i + 2, h => simp at h

end GoawkModel.C17.Props
