/-! Property theorems for C17 (see /verif/DESIGN.md). Only property theorems and non-vacuity examples live here. -/
