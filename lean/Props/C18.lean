import Proofs.C18
/-!
# C18 — coverage instrumentation is transparent and its counts are exact

Theorems over the model `GoawkModel.C18` of `cover.go` (`Annotate`, `annotateStmts`, `trackStatement`): for every program (any
nesting of if / while / for / for-in / do-while / block, any jumps, nil and empty bodies), with no bound on size or depth.
-/
namespace GoawkModel.C18.Props
open GoawkModel GoawkModel.C18
set_option linter.unusedSimpArgs false

/-- a program as `Annotate` sees it: the bodies of the Begin blocks, actions, End blocks and functions -/
def WellFormed (bodies : List Stmts) : Prop := ∀ b ∈ bodies, Stmts.NF true b = true ∧ hasCounter b = false

/-- Transparency core, one body: erasing the inserted counter statements from the annotated body gives back exactly the original
tree — annotation adds statements and changes nothing else (conditions, bodies, order, nil-vs-empty bodies at every level). -/
theorem annotate_preserves_shape_body (st : AnnState) (ss : Stmts) (hnf : Stmts.NF true ss = true) (hc : hasCounter ss = false) :
    eraseStmts (annStmts st ss).2 = ss := by
  rw [annStmts_erase st ss hnf, eraseStmts_id ss hc]

/-- …and for the whole program, whatever the annotator's state -/
theorem annotate_preserves_shape : ∀ (bodies : List Stmts) (st : AnnState), WellFormed bodies →
    (annotate bodies st).2.map eraseStmts = bodies
  | [], st, _ => rfl
  | b :: rest, st, h => by
    have hb := h b (by simp)
    simp only [annotate, List.map_cons]
    rw [annotate_preserves_shape_body st b hb.1 hb.2,
      annotate_preserves_shape rest _ (fun x hx => h x (by simp [hx]))]

/-- a missing action body (the nil slice: "print the record") stays missing, an empty or non-empty one stays present (F21) -/
theorem nil_body_preserved (st : AnnState) (ss : Stmts) : (annStmts st ss).2.isGoNil = ss.isGoNil := by
  unfold annStmts
  cases hn : ss.isGoNil with
  | true => simp [hn]
  | false => simpa using annRun_not_goNil st [] ss

/-- an empty body gets no counter and no block -/
theorem empty_body_untouched (st : AnnState) (f : Bool) : annStmts st (.nil f) = (st, .nil f) := by
  cases f <;> simp [annStmts, Stmts.isGoNil, annRun]

/-- Every statement of the program is counted in exactly as many reported blocks as it occurs in the program: the statement
identifiers listed by the blocks are, with multiplicity, the identifiers of all statements. -/
theorem blocks_partition_count : ∀ (bodies : List Stmts) (st : AnnState), WellFormed bodies →
    ∃ nb, (annotate bodies st).1.blocks = st.blocks ++ nb ∧
      ∀ x, (flatIds nb).count x = (bodies.flatMap stmtsIds).count x
  | [], st, _ => ⟨[], by simp [annotate], by simp [flatIds]⟩
  | b :: rest, st, h => by
    obtain ⟨nb1, h1, c1⟩ := annStmts_blocks st b (h b (by simp)).2
    obtain ⟨nb2, h2, c2⟩ := blocks_partition_count rest (annStmts st b).1 (fun x hx => h x (by simp [hx]))
    refine ⟨nb1 ++ nb2, ?_, ?_⟩
    · simp only [annotate]; rw [h2, h1, List.append_assoc]
    · intro x; simp [flatIds_append, List.count_append, c1, c2]

/-- with distinct statement identifiers (distinct source positions): every statement lies in exactly one block -/
theorem blocks_partition (bodies : List Stmts) (h : WellFormed bodies) (hd : (bodies.flatMap stmtsIds).Nodup) (x : Nat)
    (hx : x ∈ bodies.flatMap stmtsIds) :
    (flatIds (annotate bodies ⟨[]⟩).1.blocks).count x = 1 := by
  obtain ⟨nb, h1, c⟩ := blocks_partition_count bodies ⟨[]⟩ h
  simp only [List.nil_append] at h1
  rw [h1, c x]
  rw [List.Nodup.count hd]; simp [hx]

/-- …and nothing else is in a block -/
theorem blocks_only_statements (bodies : List Stmts) (h : WellFormed bodies) (x : Nat) (hx : x ∉ bodies.flatMap stmtsIds) :
    x ∉ flatIds (annotate bodies ⟨[]⟩).1.blocks := by
  obtain ⟨nb, h1, c⟩ := blocks_partition_count bodies ⟨[]⟩ h
  simp only [List.nil_append] at h1
  rw [h1]
  intro hmem
  have := c x
  rw [List.count_eq_zero_of_not_mem hx] at this
  exact absurd (List.count_pos_iff.2 hmem) (by omega)

/-! ## the dynamic statements (control-flow semantics `execStmts`): stated in full, not yet proved — they are exercised by the
driver's self-check on random bodies and scripts, and on the real binary by the twin-program oracle. -/

/-- running the annotated body takes the same decisions, ends the same way, and starts the same statements in the same order -/
def TraceTransparent : Prop :=
  ∀ (ss : Stmts), Stmts.NF true ss = true → hasCounter ss = false → ∀ (sc : List Nat) (fuel : Nat) (r : Run),
    execStmts fuel ss sc [] = some r →
    ∃ fuel' r', execStmts fuel' (annStmts ⟨[]⟩ ss).2 sc [] = some r' ∧ r'.sig = r.sig ∧ r'.script = r.script ∧
      eraseTrace r'.trace = r.trace

/-- counter k fires exactly as often as the first statement of block k starts -/
def CountExact : Prop :=
  ∀ (ss : Stmts), Stmts.NF true ss = true → hasCounter ss = false → (stmtsIds ss).Nodup → ∀ (sc : List Nat) (fuel : Nat) (r : Run),
    execStmts fuel (annStmts ⟨[]⟩ ss).2 sc [] = some r →
    ∀ k b, (annStmts ⟨[]⟩ ss).1.blocks[k]? = some b → ∀ i, b.ids.head? = some i →
      countCtr (k + 1) r.trace = countStart i (eraseTrace r.trace)

/-! ## non-vacuity and instances -/

/-- `{ s1; while (2) { s3; if (4) { continue } else { s6 }; s7 }; s8 }` -/
def sample : Stmts :=
  .cons (.simple 1) (.cons (.whileS 2 (.cons (.simple 3) (.cons (.ifS 4 (.cons (.jump 5 .cont) (.nil false)) (.cons (.simple 6) (.nil false)))
    (.cons (.simple 7) (.nil false))))) (.cons (.simple 8) (.nil false)))

example : WellFormed [sample, .nil true, .nil false] := by
  intro b hb; simp at hb; rcases hb with rfl | rfl | rfl <;> decide
example : ((annotate [sample, .nil true, .nil false] ⟨[]⟩).1.blocks.map (·.ids)) = [[5], [6], [3, 4], [7], [1, 2], [8]] := by decide
example : (annotate [sample, .nil true, .nil false] ⟨[]⟩).2.map eraseStmts = [sample, .nil true, .nil false] := by rfl
example : (stmtsIds sample).Nodup := by decide
-- instances of the two unproved statements: script 1,1,0 = loop once (taking the `continue` branch), then leave
example : (execStmts 60 (annStmts ⟨[]⟩ sample).2 [1, 1, 0] []).map (fun r => (r.sig, r.script, eraseTrace r.trace)) =
    (execStmts 60 sample [1, 1, 0] []).map (fun r => (r.sig, r.script, r.trace)) := by decide
example : (execStmts 60 (annStmts ⟨[]⟩ sample).2 [1, 1, 0] []).map (fun r => (List.range 6).map fun k => countCtr (k + 1) r.trace) =
    some [1, 0, 1, 0, 1, 1] := by decide

end GoawkModel.C18.Props
