import Proofs.C18Pins
import Proofs.C18
import Proofs.C18Sem
import Proofs.C18Idiom
/-!
# C18 — coverage instrumentation is transparent and its counts are exact

Theorems over the model `GoawkModel.C18` of `cover.go` (`Annotate`, `annotateStmts`, `trackStatement`): for every program (any
nesting of if / while / for / for-in / do-while / block, any jumps, nil and empty bodies), with no bound on size or depth.
-/
namespace GoawkModel.C18.Props
open GoawkModel GoawkModel.C18
set_option linter.unusedSimpArgs false

/-- a program as `Annotate` sees it: the bodies of the Begin blocks, actions, End blocks and functions -/
def WellFormed (bodies : List Stmts) : Prop := ∀ b ∈ bodies, Stmts.NF true b = true ∧ hasCounter b = false

/-- Transparency core, one body: erasing the inserted counter statements from the annotated body gives back exactly the original
tree — annotation adds statements and changes nothing else (conditions, bodies, order, nil-vs-empty bodies at every level). -/
theorem annotate_preserves_shape_body (st : AnnState) (ss : Stmts) (hnf : Stmts.NF true ss = true) (hc : hasCounter ss = false) :
    eraseStmts (annStmts st ss).2 = ss := by
  rw [annStmts_erase st ss hnf, eraseStmts_id ss hc]

/-- …and for the whole program, whatever the annotator's state -/
theorem annotate_preserves_shape : ∀ (bodies : List Stmts) (st : AnnState), WellFormed bodies →
    (annotate bodies st).2.map eraseStmts = bodies
  | [], st, _ => rfl
  | b :: rest, st, h => by
    have hb := h b (by simp)
    simp only [annotate, List.map_cons]
    rw [annotate_preserves_shape_body st b hb.1 hb.2,
      annotate_preserves_shape rest _ (fun x hx => h x (by simp [hx]))]

/-- a missing action body (the nil slice: "print the record") stays missing, an empty or non-empty one stays present (F21) -/
theorem nil_body_preserved (st : AnnState) (ss : Stmts) : (annStmts st ss).2.isGoNil = ss.isGoNil := by
  unfold annStmts
  cases hn : ss.isGoNil with
  | true => simp [hn]
  | false => simpa using annRun_not_goNil st [] ss

/-- an empty body gets no counter and no block -/
theorem empty_body_untouched (st : AnnState) (f : Bool) : annStmts st (.nil f) = (st, .nil f) := by
  cases f <;> simp [annStmts, Stmts.isGoNil, annRun]

/-- Every statement of the program is counted in exactly as many reported blocks as it occurs in the program: the statement
identifiers listed by the blocks are, with multiplicity, the identifiers of all statements. -/
theorem blocks_partition_count : ∀ (bodies : List Stmts) (st : AnnState), WellFormed bodies →
    ∃ nb, (annotate bodies st).1.blocks = st.blocks ++ nb ∧
      ∀ x, (flatIds nb).count x = (bodies.flatMap stmtsIds).count x
  | [], st, _ => ⟨[], by simp [annotate], by simp [flatIds]⟩
  | b :: rest, st, h => by
    obtain ⟨nb1, h1, c1⟩ := annStmts_blocks st b (h b (by simp)).2
    obtain ⟨nb2, h2, c2⟩ := blocks_partition_count rest (annStmts st b).1 (fun x hx => h x (by simp [hx]))
    refine ⟨nb1 ++ nb2, ?_, ?_⟩
    · simp only [annotate]; rw [h2, h1, List.append_assoc]
    · intro x; simp [flatIds_append, List.count_append, c1, c2]

/-- with distinct statement identifiers (distinct source positions): every statement lies in exactly one block -/
theorem blocks_partition (bodies : List Stmts) (h : WellFormed bodies) (hd : (bodies.flatMap stmtsIds).Nodup) (x : Nat)
    (hx : x ∈ bodies.flatMap stmtsIds) :
    (flatIds (annotate bodies ⟨[]⟩).1.blocks).count x = 1 := by
  obtain ⟨nb, h1, c⟩ := blocks_partition_count bodies ⟨[]⟩ h
  simp only [List.nil_append] at h1
  rw [h1, c x]
  rw [List.Nodup.count hd]; simp [hx]

/-- …and nothing else is in a block -/
theorem blocks_only_statements (bodies : List Stmts) (h : WellFormed bodies) (x : Nat) (hx : x ∉ bodies.flatMap stmtsIds) :
    x ∉ flatIds (annotate bodies ⟨[]⟩).1.blocks := by
  obtain ⟨nb, h1, c⟩ := blocks_partition_count bodies ⟨[]⟩ h
  simp only [List.nil_append] at h1
  rw [h1]
  intro hmem
  have := c x
  rw [List.count_eq_zero_of_not_mem hx] at this
  exact absurd (List.count_pos_iff.2 hmem) (by omega)

/-! ## the dynamic clauses, over the scripted control-flow semantics `execStmts`

A script fixes the outcome of every condition evaluation (and the length of every `for … in`), so "for every script" is "for every
behaviour of the expressions"; the frame assumption is that counter statements take no decision (they touch only `__COVER`). -/

/-- Transparency. Whenever the annotated body runs to completion, the original body — same script, same fuel — runs to completion
with the same signal (normal / break / continue / next / exit / return), consumes the script identically, and starts the same
statements in the same order: the trace of the annotated run with the counter events removed *is* the trace of the original. -/
theorem transparent (st : AnnState) (ss : Stmts) (hnf : Stmts.NF true ss = true) (hc : hasCounter ss = false)
    (sc : List Nat) (fuel : Nat) (r : Run) (h : execStmts fuel (annStmts st ss).2 sc [] = some r) :
    execStmts fuel ss sc [] = some ⟨r.sig, r.script, eraseTrace r.trace⟩ := by
  have := (erase_sim fuel).stmts _ _ _ _ h
  rwa [annotate_preserves_shape_body st ss hnf hc] at this

/-- fuel is only a bound: more fuel never changes a result -/
theorem fuel_monotone (ss : Stmts) (sc : List Nat) (tr : List Ev) (fuel extra : Nat) (r : Run)
    (h : execStmts fuel ss sc tr = some r) : execStmts (fuel + extra) ss sc tr = some r := by
  induction extra with
  | zero => exact h
  | succ n ih => exact (exec_mono _).stmts _ _ _ _ ih

/-- Exactness, per body of a program. `B` is the final block list of the whole program (`st` = annotator state before this body,
`post` = blocks added after it); for every block `kk` of `B` whose first statement is `i` — identifiers being unique in `B` —
any run of the annotated body, from any trace, adds as many firings of counter `kk + 1` as starts of statement `i`. -/
theorem count_exact_body (st : AnnState) (ss : Stmts) (hc : hasCounter ss = false) (post : List Block) (B : List Block)
    (hB : B = (annStmts st ss).1.blocks ++ post) (hnodup : ∀ x, (flatIds B).count x ≤ 1)
    (kk i : Nat) (b : Block) (hb : B[kk]? = some b) (hi : b.ids.head? = some i)
    (sc : List Nat) (tr : List Ev) (fuel : Nat) (r : Run) (h : execStmts fuel (annStmts st ss).2 sc tr = some r) :
    countCtr (kk + 1) r.trace + countStart i tr = countStart i r.trace + countCtr (kk + 1) tr := by
  have T : Target kk i B := ⟨⟨b, hb, hi⟩, hnodup⟩
  have hbal := annStmts_bal T st ss hc post hB
  have := (balance_sim (kk + 1) i fuel).stmts _ false _ _ _ hbal h
  simpa [Gain] using this

/-- Exactness (count mode). For a body with distinct statement identifiers: when the annotated body has run, the value of
`__COVER[kk + 1]` — the number of firings of counter `kk + 1` — equals the number of times the first statement of block `kk`
began executing in the run of the ORIGINAL body (same script, same fuel, same outcome). -/
theorem count_exact (ss : Stmts) (hnf : Stmts.NF true ss = true) (hc : hasCounter ss = false) (hd : (stmtsIds ss).Nodup)
    (sc : List Nat) (fuel : Nat) (r : Run) (h : execStmts fuel (annStmts ⟨[]⟩ ss).2 sc [] = some r)
    (kk i : Nat) (b : Block) (hb : (annStmts ⟨[]⟩ ss).1.blocks[kk]? = some b) (hi : b.ids.head? = some i) :
    ∃ r0, execStmts fuel ss sc [] = some r0 ∧ r0.sig = r.sig ∧ countCtr (kk + 1) r.trace = countStart i r0.trace := by
  refine ⟨_, transparent ⟨[]⟩ ss hnf hc sc fuel r h, rfl, ?_⟩
  obtain ⟨nb, h1, c⟩ := annStmts_blocks ⟨[]⟩ ss hc
  simp only [List.nil_append] at h1
  have hn : ∀ x, (flatIds (annStmts ⟨[]⟩ ss).1.blocks).count x ≤ 1 := by
    intro x; rw [h1, c x]; exact List.nodup_iff_count.1 hd x
  have := count_exact_body ⟨[]⟩ ss hc [] _ (by simp) hn kk i b hb hi sc [] fuel r h
  simp only [countStart, countCtr, List.count_nil, Nat.add_zero] at this
  show countCtr (kk + 1) r.trace = countStart i (eraseTrace r.trace)
  rw [countStart_eraseTrace]; simpa [countStart, countCtr] using this

/-- the value `__COVER[k]` holds in set mode after a run: the statement `__COVER[k] = 1` has been executed or not -/
def setValue (k : Nat) (tr : List Ev) : Nat := if countCtr k tr = 0 then 0 else 1

/-- Set mode: the reported value is 1 exactly when the count-mode count — the number of starts of the block's first statement in
the original run — is non-zero. -/
theorem set_is_nonzero (ss : Stmts) (hnf : Stmts.NF true ss = true) (hc : hasCounter ss = false) (hd : (stmtsIds ss).Nodup)
    (sc : List Nat) (fuel : Nat) (r : Run) (h : execStmts fuel (annStmts ⟨[]⟩ ss).2 sc [] = some r)
    (kk i : Nat) (b : Block) (hb : (annStmts ⟨[]⟩ ss).1.blocks[kk]? = some b) (hi : b.ids.head? = some i) :
    ∃ r0, execStmts fuel ss sc [] = some r0 ∧ (setValue (kk + 1) r.trace = 1 ↔ countStart i r0.trace ≠ 0) := by
  obtain ⟨r0, h0, _, hcnt⟩ := count_exact ss hnf hc hd sc fuel r h kk i b hb hi
  refine ⟨r0, h0, ?_⟩
  unfold setValue; rw [hcnt]
  by_cases hz : countStart i r0.trace = 0 <;> simp [hz]

/-- Converse of `transparent`: whenever the original body runs to completion, so does the annotated body (with fuel for the extra
statements), with the same signal, the same use of the script, and — counters removed — the same trace. Together with
`transparent`: the two programs terminate on exactly the same scripts and are indistinguishable apart from the counters. -/
theorem transparent_rev (st : AnnState) (ss : Stmts) (hnf : Stmts.NF true ss = true) (hc : hasCounter ss = false)
    (sc : List Nat) (fuel : Nat) (r0 : Run) (h : execStmts fuel ss sc [] = some r0) :
    ∃ r, execStmts (fuel + sizeL (annStmts st ss).2) (annStmts st ss).2 sc [] = some r ∧
      r.sig = r0.sig ∧ r.script = r0.script ∧ eraseTrace r.trace = r0.trace := by
  rw [← annotate_preserves_shape_body st ss hnf hc] at h
  obtain ⟨r, hr, he⟩ := (rev_sim fuel).stmts _ sc [] r0 [] rfl h _ (Nat.le_refl _)
  obtain ⟨g1, g2, g3⟩ := eraseRun_eq he
  exact ⟨r, hr, g1, g2, g3⟩

/-! ## the for-in idioms: what `for (k in A) body` leaves behind, with and without counters (model `GoawkModel.C18Idiom`)

State = the loop variable (unset or a key), a copy of it, the keys of two arrays, two counters, a string length, the log of the
coverage counters; the order in which the keys are reached is a parameter. For every body, every order, every state. -/
section Idioms
open GoawkModel.C18.Idiom

/-- Transparency on the observed state: the loop with counters anywhere in its body leaves the loop variable, both arrays, the
counters and the string exactly as the loop without them does. -/
theorem forin_counters_transparent (body : List BSt) (ks : List Key) (σ : St) :
    vis (forIn body ks σ) = vis (forIn (eraseB body) ks σ) :=
  forIn_erase body ks σ σ rfl

/-- the shape the annotator produces: one counter in front of a counter-free body -/
theorem forin_counter_at_head_transparent (c : Nat) (body : List BSt) (hb : noCover body = true) (ks : List Key) (σ : St) :
    vis (forIn (.cover c :: body) ks σ) = vis (forIn body ks σ) := by
  have h := forin_counters_transparent (.cover c :: body) ks σ
  have e : eraseB (.cover c :: body) = body := by
    have : eraseB (BSt.cover c :: body) = eraseB body := by simp [eraseB, isCover]
    rw [this, eraseB_noCover body hb]
  rw [e] at h; exact h

/-- Exactness for the loop body's block: the counter fires once per time the ORIGINAL body began. -/
theorem forin_count_exact (c : Nat) (body : List BSt) (hb : noCover body = true) (ks : List Key) (σ : St) :
    (forIn (.cover c :: body) ks σ).cover = σ.cover ++ List.replicate (iterations body ks σ) c := by
  have h := forIn_cover_log c body hb ks σ
  have e : iterations (.cover c :: body) ks σ = iterations body ks σ := by
    have := iterations_erase (.cover c :: body) ks σ σ rfl
    have e2 : eraseB (BSt.cover c :: body) = body := by
      have : eraseB (BSt.cover c :: body) = eraseB body := by simp [eraseB, isCover]
      rw [this, eraseB_noCover body hb]
    rw [e2] at this; exact this
  rw [e] at h; exact h

/-- Whatever the body (one `delete`, nothing at all, a counter and a `delete`, a `break`, …): after a loop over an array that holds
at least one of the keys reached, the loop variable holds one of those keys. -/
theorem forin_assigns_loop_variable (body : List BSt) (ks : List Key) (σ : St) (h : ∃ key ∈ ks, key ∈ σ.a) :
    ∃ key ∈ ks, (forIn body ks σ).k = some key :=
  forIn_k_of_nonempty body ks σ h

/-- …and a loop over an array that holds none of them changes nothing (the variable stays unset if it was). -/
theorem forin_over_nothing_changes_nothing (body : List BSt) (ks : List Key) (σ : St) (h : ∀ key ∈ ks, key ∉ σ.a) :
    forIn body ks σ = σ :=
  forIn_untouched body ks σ h

/-- `for (k in A) delete A[k]` empties the array -/
theorem delete_idiom_empties (ks : List Key) (σ : St) (h : ∀ key ∈ σ.a, key ∈ ks) : (forIn [.delOwn] ks σ).a = [] :=
  forIn_delOwn_empties ks σ h

/-- The delete-all idiom equals "walk the array with an empty body, then clear it" — the first site of the seeded change C18-q2 is
exact as long as the empty loop is still walked… -/
theorem delete_idiom_is_empty_loop_then_clear (ks : List Key) (σ : St) (hnd : ks.Nodup) (h : ∀ key ∈ σ.a, key ∈ ks) :
    forIn [.delOwn] ks σ = clearOnly (forIn [] ks σ) := by
  have h1 := emptyLoop_vs_delOwn ks σ σ hnd ⟨rfl, rfl, rfl, rfl, rfl, rfl, rfl⟩ (fun _ _ => Iff.rfl)
  have h2 := forIn_delOwn_empties ks σ h
  revert h1 h2
  generalize forIn [.delOwn] ks σ = P
  generalize forIn [] ks σ = Q
  intro h1 h2
  cases P; cases Q
  simp only [restEq, clearOnly] at *
  obtain ⟨a1, a2, a3, a4, a5, a6, a7⟩ := h1
  subst a1 a2 a3 a4 a5 a6 a7 h2
  rfl

/-- …and no longer when it is skipped (the second site): clearing without walking leaves the loop variable unset, while the run
with coverage — whose loop body is `__COVER[c]++; delete A[k]`, not the idiom — assigns it. The plain run and the covered run of
such an implementation differ in what the program can see: coverage is not transparent. -/
theorem clearing_without_walking_is_observable (c : Nat) (ks : List Key) (σ : St) (h : ∃ key ∈ ks, key ∈ σ.a) (hk : σ.k = none) :
    vis (clearOnly σ) ≠ vis (forIn [.cover c, .delOwn] ks σ) := by
  intro e
  obtain ⟨key, _, hkey⟩ := forIn_k_of_nonempty [.cover c, .delOwn] ks σ h
  have := ((vis_eq_iff _ _).1 e).1
  rw [hkey] at this
  simp [clearOnly, hk] at this

-- non-vacuity: three keys reached in the order 2, 3, 1; the loop variable starts unset
def sampleSt : St := ⟨none, none, [1, 2, 3], [1, 2, 3], 0, 0, 0, []⟩
example : noCover [BSt.delOwn] = true := by decide
example : ∃ key ∈ [2, 3, 1], key ∈ sampleSt.a := ⟨2, by decide, by decide⟩
example : [2, 3, 1].Nodup ∧ ∀ key ∈ sampleSt.a, key ∈ [2, 3, 1] := by decide
example : forIn [.delOwn] [2, 3, 1] sampleSt = { sampleSt with k := some 1, a := [] } := by decide
example : forIn [.cover 7, .delOwn] [2, 3, 1] sampleSt = { sampleSt with k := some 1, a := [], cover := [7, 7, 7] } := by decide
example : iterations [.delOwn] [2, 3, 1] sampleSt = 3 := by decide
example : forIn [.ifBrk, .incM] [2, 3, 1] sampleSt = { sampleSt with k := some 3, n := 2, m := 1 } := by decide
example : (clearOnly sampleSt).k = none ∧ (forIn [.cover 7, .delOwn] [2, 3, 1] sampleSt).k = some 1 := by decide
example : ∀ key ∈ [2, 3, 1], key ∉ ({ sampleSt with a := [] } : St).a := by decide

end Idioms

/-! ## non-vacuity and instances -/

/-- `{ s1; while (2) { s3; if (4) { continue } else { s6 }; s7 }; s8 }` -/
def sample : Stmts :=
  .cons (.simple 1) (.cons (.whileS 2 (.cons (.simple 3) (.cons (.ifS 4 (.cons (.jump 5 .cont) (.nil false)) (.cons (.simple 6) (.nil false)))
    (.cons (.simple 7) (.nil false))))) (.cons (.simple 8) (.nil false)))

example : WellFormed [sample, .nil true, .nil false] := by
  intro b hb; simp at hb; rcases hb with rfl | rfl | rfl <;> decide
example : ((annotate [sample, .nil true, .nil false] ⟨[]⟩).1.blocks.map (·.ids)) = [[5], [6], [3, 4], [7], [1, 2], [8]] := by decide
example : (annotate [sample, .nil true, .nil false] ⟨[]⟩).2.map eraseStmts = [sample, .nil true, .nil false] := by rfl
example : (stmtsIds sample).Nodup := by decide
-- the hypotheses of `transparent` / `count_exact` are satisfiable: script 1,1,0 = loop once (taking the `continue` branch), then leave
example : Stmts.NF true sample = true ∧ hasCounter sample = false := by decide
example : (execStmts 60 (annStmts ⟨[]⟩ sample).2 [1, 1, 0] []).isSome = true := by decide
example : (execStmts 60 (annStmts ⟨[]⟩ sample).2 [1, 1, 0] []).map (fun r => (r.sig, r.script, eraseTrace r.trace)) =
    (execStmts 60 sample [1, 1, 0] []).map (fun r => (r.sig, r.script, r.trace)) := by decide
example : (execStmts 60 (annStmts ⟨[]⟩ sample).2 [1, 1, 0] []).map (fun r => (List.range 6).map fun k => countCtr (k + 1) r.trace) =
    some [1, 0, 1, 0, 1, 1] := by decide

end GoawkModel.C18.Props

/-! ## Pinned source text (regenerated tie; extract/pins.go, tools/repin.py)
An edit of one of these functions in /repo breaks the matching obligation: the model below was written from the text
in `Proofs.C18Pins` and has to be compared with the new text before it is re-pinned. -/
namespace GoawkModel.Pins.C18
theorem pin_cover_Annotate : Generated.C18Pins.cover_Annotate = Expected.cover_Annotate := rfl
theorem pin_cover_annotateActions : Generated.C18Pins.cover_annotateActions = Expected.cover_annotateActions := rfl
theorem pin_cover_annotateFunctions : Generated.C18Pins.cover_annotateFunctions = Expected.cover_annotateFunctions := rfl
theorem pin_cover_annotateStmtsList : Generated.C18Pins.cover_annotateStmtsList = Expected.cover_annotateStmtsList := rfl
theorem pin_cover_annotateStmts : Generated.C18Pins.cover_annotateStmts = Expected.cover_annotateStmts := rfl
theorem pin_cover_trackStatement : Generated.C18Pins.cover_trackStatement = Expected.cover_trackStatement := rfl
theorem pin_endPos : Generated.C18Pins.endPos = Expected.endPos := rfl
theorem pin_list : Generated.C18Pins.pinned = Expected.pinned := rfl
end GoawkModel.Pins.C18
-- end of pinned source text
