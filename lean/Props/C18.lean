/-! Property theorems for C18 (see /verif/DESIGN.md). Only property theorems and non-vacuity examples live here. -/
