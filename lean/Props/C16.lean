/-! Property theorems for C16 (see /verif/DESIGN.md). Only property theorems and non-vacuity examples live here. -/
