import Proofs.C16Pins
import Proofs.C16Pass
import Proofs.C16Bound
import Proofs.C16Decl
import Proofs.C16Rename
import Proofs.C16Early
import Proofs.C16Locals
import Proofs.C16Stack
/-! Property theorems for C16 — scalar/array typing is sound, exact and independent of declaration order.
Model: `GoawkModel.C16` (the pass structure of resolve.go with the function order as a parameter); specification:
`GoawkModel.C16.Sat` / `Consistent` (a total scalar/array typing satisfying every usage constraint exists). -/
namespace GoawkModel.C16

/-- Soundness: if the resolver accepts, the typing it ends with (unknown ⇒ scalar) satisfies every usage constraint:
direct uses, "argument i of f has the type of f's parameter i" through any call graph, non-variable arguments are scalars,
ARGV/ENVIRON/FIELDS are arrays. Holds for every function order that walks every function. -/
theorem resolve_sound (p : Program) (order : List Name) (wf : WF p) (hc : Covers order p) (s : State)
    (h : resolve p order = .ok s) : Sat p (final s) := by
  have hset := resolve_settled wf order s h
  refine ⟨fun fn v => dflt_ne_unknown _, ?_, ?_, ?_⟩
  · intro b hb
    have := resolve_inv (keeps_stepInv p b) order s (prelude_keeps hb) h
    simp only [final, this.2]
    rfl
  · intro f hf e he
    exact settled_sat (hset.funcs f.name (hc f hf) (wf.names f hf).1 f (wf.names f hf).2 e he)
  · intro e he
    exact settled_sat (hset.main e he)

/-- Completeness: a type error is reported only when no consistent typing exists (for every order, covering or not). -/
theorem resolve_complete (p : Program) (order : List Name) (wf : WF p) (er : LErr)
    (h : resolve p order = .error er) (hne : er ≠ (0, 0, .tooMany)) : ¬ Consistent p := by
  intro ⟨σ, hs⟩
  exact hne (resolve_err (below_stepInv wf hs) (below_noErr wf hs) order er (prelude_below hs) h)

/-- Every type the resolver decides before defaulting is forced: all consistent typings agree with it. -/
theorem resolve_forced (p : Program) (order : List Name) (wf : WF p) (s : State) (σ : Typing)
    (h : resolve p order = .ok s) (hs : Sat p σ) : ∀ fn v, s.ty fn v ≠ .unknown → s.ty fn v = σ fn v :=
  resolve_inv (below_stepInv wf hs) order s (prelude_below hs) h

/-- Exactness, up to the pass cap (`passes_bound` removes the side condition, see `resolve_exact`):
the program is accepted iff a consistent typing exists. -/
theorem resolve_exact_partial (p : Program) (order : List Name) (wf : WF p) (hc : Covers order p)
    (hcap : resolve p order ≠ .error (0, 0, .tooMany)) :
    (∃ s, resolve p order = .ok s) ↔ Consistent p := by
  constructor
  · intro ⟨s, h⟩
    exact ⟨final s, resolve_sound p order wf hc s h⟩
  · intro hcons
    cases h : resolve p order with
    | ok s => exact ⟨s, rfl⟩
    | error er =>
      by_cases he : er = (0, 0, .tooMany)
      · rw [he] at h; exact absurd h hcap
      · exact absurd hcons (resolve_complete p order wf er h he)

/-- The pass cap (`maxIterations` = number of parameters and declared globals after the first pass, as repaired for F19)
is never what rejects a program: every pass after the first that reports an update decides the type of one more of
those variables, and ARGV was decided before the first pass. -/
theorem passes_bound (p : Program) (order : List Name) (wf : WF p) (hb : p.builtins ≠ []) :
    resolve p order ≠ .error (0, 0, .tooMany) :=
  resolve_not_tooMany p order wf hb

/-- Exactness: a program is accepted exactly when a consistent scalar/array typing exists — i.e. rejected exactly when
some variable or parameter would have to be both a scalar and an array. -/
theorem resolve_exact (p : Program) (order : List Name) (wf : WF p) (hb : p.builtins ≠ []) (hc : Covers order p) :
    (∃ s, resolve p order = .ok s) ↔ Consistent p :=
  resolve_exact_partial p order wf hc (passes_bound p order wf hb)

/-- Order independence of the verdict: any two covering function orders accept the same programs. -/
theorem order_independent (p : Program) (o₁ o₂ : List Name) (wf : WF p) (hb : p.builtins ≠ [])
    (h₁ : Covers o₁ p) (h₂ : Covers o₂ p) :
    (∃ s, resolve p o₁ = .ok s) ↔ (∃ s, resolve p o₂ = .ok s) :=
  (resolve_exact p o₁ wf hb h₁).trans (resolve_exact p o₂ wf hb h₂).symm

/-- Order independence of the types: any two function orders that are both accepted end with the same typing. -/
theorem order_independent_types (p : Program) (o₁ o₂ : List Name) (wf : WF p) (h₁ : Covers o₁ p) (h₂ : Covers o₂ p)
    (s₁ s₂ : State) (r₁ : resolve p o₁ = .ok s₁) (r₂ : resolve p o₂ = .ok s₂) :
    ∀ fn v, final s₁ fn v = final s₂ fn v := by
  intro fn v
  have f12 := resolve_forced p o₁ wf s₁ (final s₂) r₁ (resolve_sound p o₂ wf h₂ s₂ r₂) fn v
  have f21 := resolve_forced p o₂ wf s₂ (final s₁) r₂ (resolve_sound p o₁ wf h₁ s₁ r₁) fn v
  by_cases hk : s₁.ty fn v = .unknown
  · by_cases hk2 : s₂.ty fn v = .unknown
    · simp only [final, hk, hk2]
    · have := f21 hk2
      simp only [final, hk] at this ⊢
      rw [this]; rfl
  · have := f12 hk
    simp only [final] at this ⊢
    rw [← this, dflt_known hk]

/-- Order independence of the printed type tables (what `ParserConfig.DebugTypes` shows and the compiler consumes): the same
globals exist, and globals and parameters get the same types and the same scalar/array indexes. -/
theorem order_independent_tables (p : Program) (o₁ o₂ : List Name) (wf : WF p) (h₁ : Covers o₁ p) (h₂ : Covers o₂ p)
    (s₁ s₂ : State) (r₁ : resolve p o₁ = .ok s₁) (r₂ : resolve p o₂ = .ok s₂) :
    globalTable p s₁ = globalTable p s₂ ∧ ∀ f, localTable s₁ f = localTable s₂ f := by
  have hty : final s₁ = final s₂ := by
    funext fn v; exact order_independent_types p o₁ o₂ wf h₁ h₂ s₁ s₂ r₁ r₂ fn v
  have hdecl : s₁.decl = s₂.decl := by
    funext v
    have e1 := resolve_decl_iff wf o₁ h₁ s₁ r₁ v
    have e2 := resolve_decl_iff wf o₂ h₂ s₂ r₂ v
    cases hd1 : s₁.decl v <;> cases hd2 : s₂.decl v <;> simp_all
  constructor
  · simp only [globalTable, hty, hdecl]
  · intro f; simp only [localTable, hty]

/-- Order independence of the verdict: a type error under one order excludes acceptance under any covering order. -/
theorem order_independent_verdict (p : Program) (o₁ o₂ : List Name) (wf : WF p) (h₂ : Covers o₂ p)
    (er : LErr) (s₂ : State) (r₁ : resolve p o₁ = .error er) (hne : er ≠ (0, 0, .tooMany)) :
    resolve p o₂ ≠ .ok s₂ := by
  intro r₂
  exact resolve_complete p o₁ wf er r₁ hne ⟨final s₂, resolve_sound p o₂ wf h₂ s₂ r₂⟩

/-- Renaming invariance of the verdict: consistently renaming every identifier (injectively, keeping the top-level scope)
does not change whether the program is accepted — whatever (covering) walk orders are used for the two spellings, so a
renaming that reverses the name order, and with it Go's sorted walk order, is included. -/
theorem rename_invariant (p : Program) (ρ : Name → Name) (hρ : Renaming ρ) (o o' : List Name)
    (wf : WF p) (wf' : WF (p.rename ρ)) (hb : p.builtins ≠ []) (hc : Covers o p) (hc' : Covers o' (p.rename ρ)) :
    (∃ s, resolve (p.rename ρ) o' = .ok s) ↔ (∃ s, resolve p o = .ok s) := by
  have hb' : (p.rename ρ).builtins ≠ [] := by
    intro h
    simp only [Program.rename, List.map_eq_nil_iff] at h
    exact hb h
  exact ((resolve_exact (p.rename ρ) o' wf' hb' hc').trans (consistent_rename hρ p)).trans (resolve_exact p o wf hb hc).symm

/-- Why `maxIterations` is taken AFTER the first pass (the cap `passes_bound` is about): with the cap taken before it — parameters and
ARGV / ENVIRON / FIELDS only, the globals not yet recorded — a consistently typed program (a global - parameter - global chain of
five links through unused parameters, call sites listed against the direction of type flow) is rejected with "too many iterations",
while the real cap accepts it and the early cap accepts the same items in reverse order: an order-dependent verdict. -/
theorem cap_must_count_globals :
    WF zigAgainst ∧ Covers zigOrder zigAgainst ∧ Consistent zigAgainst ∧
      (∃ s, resolve zigAgainst zigOrder = .ok s) ∧
      resolveEarly zigAgainst zigOrder = .error (0, 0, .tooMany) ∧
      (∃ s, resolveEarly zigAlong zigOrder = .ok s) :=
  ⟨zigAgainst_wf, zig_covers,
   (resolve_exact zigAgainst zigOrder zigAgainst_wf (by decide) zig_covers).mp ⟨_, rfl⟩, ⟨_, rfl⟩, rfl, ⟨_, rfl⟩⟩

example : capEarly zigAgainst = 8 ∧ zigAlong.main.reverse.length = zigAgainst.main.length := by decide

/-! ### locals used as arrays: the array-table discipline of `CallUser` (model `GoawkModel.C16.Locals`) -/

open Locals in
/-- Locals are fresh on every call, however earlier calls were left. Top-level pieces of code (BEGIN, the pattern or action run for
a record, END — of one run, or of several runs on one Interpreter) are executed one after the other, each continuing with the array
table its predecessor left, whatever way that one ended (normally, `exit`, `next`, `nextfile`, run-time error, call depth exceeded —
at any nesting depth). Then every activation of every function starts with all its local arrays empty, and between the pieces the
table holds exactly the global arrays it held at the start. Unbounded: any functions, any pieces, any fuel. -/
theorem locals_fresh_after_any_leave (fns : List Fn) (fuel : Nat) (pieces : List (List Stmt)) (globals : Table) :
    AllFresh (phases fns fuel globals.length pieces ⟨globals, []⟩).1.entries ∧
      (phases fns fuel globals.length pieces ⟨globals, []⟩).1.tab = globals := by
  have h := phases_spec fns fuel pieces ⟨globals, []⟩ (fun e he => by cases he)
  exact ⟨h.2, h.1⟩

open Locals in
/-- A callee never touches the local arrays of the activations below it, and the table has its old size again when the statement
list has ended — for every way of ending. -/
theorem callee_leaves_callers_locals (fns : List Fn) (fuel base : Nat) (stmts : List Stmt) (s : St) (hb : base ≤ s.tab.length)
    (hf : AllFresh s.entries) :
    (exec fns fuel base stmts s).1.tab.length = s.tab.length ∧
      (exec fns fuel base stmts s).1.tab.take base = s.tab.take base :=
  ⟨(exec_spec fns fuel base stmts s hb hf).1, (exec_spec fns fuel base stmts s hb hf).2.1⟩

/-- non-vacuity: function 0 fills its two local arrays and calls function 1, which fills its array and leaves by `exit`; the next
piece (END) calls function 0 again: the later entries see empty arrays too; the one global array is untouched -/
example :
    (Locals.phases [⟨2, [.fill 0 7, .fill 1 8, .call 1]⟩, ⟨1, [.fill 0 9, .leave .exit]⟩] 50 1
      [[.call 0], [.call 0]] ⟨[[5]], []⟩) =
      (⟨[[5]], [[0, 0], [0], [0, 0], [0]]⟩, [.exit, .exit]) := rfl

/-! ### non-vacuity: `function f(a) { a[1] }  BEGIN { f(x) }` with ARGV=1 ENVIRON=2 FIELDS=3 a=4 f=5 x=6 -/

def exProg : Program :=
  { funcs := [⟨5, [4], [.use 4 .array]⟩], main := [.call 5 1, .varArg 5 0 6], specials := [], builtins := [1, 2, 3] }

/-- the same with `x = 1` added: rejected -/
def exBad : Program := { exProg with main := exProg.main ++ [.use 6 .scalar] }

theorem exProg_wf : WF exProg := by
  refine ⟨?_, ?_, ?_, ?_⟩
  · intro e he
    simp [exProg] at he
    rcases he with rfl | rfl
    · trivial
    · simp [ArgOK, Program.paramsOf, Program.findFunc, exProg]
  · intro f hf e he
    simp [exProg] at hf
    subst hf
    simp at he
    subst he
    trivial
  · intro b hb; simp [exProg]
  · intro f hf
    simp [exProg] at hf
    subst hf
    simp [Program.findFunc, exProg]

example : Covers [5] exProg := by intro f hf; simp [exProg] at hf; subst hf; simp

example : ∃ s, resolve exProg [5] = .ok s ∧ final s 0 6 = .array ∧ final s 5 4 = .array := by
  refine ⟨_, rfl, ?_, ?_⟩ <;> decide

example : resolve exBad [5] = .error (0, 2, .useAs .array 6 .scalar) := rfl

example : exProg.builtins ≠ [] := by decide

example : Renaming (fun n => 2 * n) := ⟨fun _ _ h => Nat.eq_of_mul_eq_mul_left (by decide : 0 < 2) h, rfl⟩

/-! ### scalars of an activation at any depth, under re-allocation of the value stack (`GoawkModel.C16.Stack`) -/

/-- a run of `CallUser`'s stack discipline that exercises everything: the main program pushes the null of a callee's scalar and
calls; the callee evaluates an expression two operands deep (with a 2-cell stack the second operand re-allocates), assigns its
scalar, makes a nested call, consumes the result and reads its scalar back -/
def exTrace : List Stack.Ev :=
  [.push 0, .enter 1, .push 5, .push 6, .pop, .pop, .write 0 9, .push 0, .enter 1, .leave 7, .pop, .read 0, .leave 3, .pop]

/-- The code as it is (`p.frame` a slice of the stack, the caller's slice saved in `oldFrame` and put back): every scalar read and
every operand consumed is what the reference semantics — each activation owns its scalars and its operands, scalars are fresh
copies of the arguments — says, at every call depth, for EVERY growth policy of `append` and every initial capacity: an activation
keeps reading and writing the backing array its slice was cut from, arguments and operands always go through the current one. -/
theorem frames_survive_growth (grow : Nat → Nat) (hg : ∀ c, c < grow c) (cap0 : Nat) (es : List Stack.Ev) (obs : List Nat)
    (h : Stack.refRun Stack.refInit es = some obs) :
    Stack.run .savedSlice grow (Stack.init cap0) es = obs :=
  Stack.run_sim .savedSlice (by decide) grow hg es _ _ obs (Stack.rel_init _ cap0) h

/-- The same for frames kept as base indexes into whatever the stack currently is, for every access. -/
theorem offsets_survive_growth (grow : Nat → Nat) (hg : ∀ c, c < grow c) (cap0 : Nat) (es : List Stack.Ev) (obs : List Nat)
    (h : Stack.refRun Stack.refInit es = some obs) :
    Stack.run .offset grow (Stack.init cap0) es = obs :=
  Stack.run_sim .offset (by decide) grow hg es _ _ obs (Stack.rel_init _ cap0) h

/-- Hence what a program observes does not depend on when and by how much the stack is re-allocated. -/
theorem growth_policy_irrelevant (g1 g2 : Nat → Nat) (h1 : ∀ c, c < g1 c) (h2 : ∀ c, c < g2 c) (c1 c2 : Nat)
    (es : List Stack.Ev) (obs : List Nat) (h : Stack.refRun Stack.refInit es = some obs) :
    Stack.run .savedSlice g1 (Stack.init c1) es = Stack.run .savedSlice g2 (Stack.init c2) es := by
  rw [frames_survive_growth g1 h1 c1 es obs h, frames_survive_growth g2 h2 c2 es obs h]

/-- the full statement for the mixed discipline (slices while an activation runs, the caller's frame cut anew out of the
current stack at the saved base index after a call) -/
def ResliceSurvivesGrowth : Prop :=
  ∀ (grow : Nat → Nat), (∀ c, c < grow c) → ∀ (cap0 : Nat) (es : List Stack.Ev) (obs : List Nat),
    Stack.refRun Stack.refInit es = some obs → Stack.run .reslice grow (Stack.init cap0) es = obs

/-- … is false: when an operand push of the RUNNING activation re-allocates the stack, that activation goes on writing its
scalars into the old backing array; cutting its frame out of the new array after its next call brings back the values of the
moment of re-allocation (`exTrace` on a 2-cell stack: the scalar assigned 9 reads back as null). -/
theorem reslice_fails : ¬ ResliceSurvivesGrowth := by
  intro h
  have := h (fun c => 2 * c + 1) (fun c => by omega) 2 exTrace [6, 5, 7, 9, 3] (by decide)
  revert this
  decide

/-- non-vacuity: `exTrace` is a run of the reference semantics; the code as it is observes the same on a 2-cell stack that
doubles, on a 1-cell stack that grows by one, and on a stack that never has to grow -/
example : Stack.refRun Stack.refInit exTrace = some [6, 5, 7, 9, 3] := by decide
example : Stack.run .savedSlice (fun c => 2 * c + 1) (Stack.init 2) exTrace = [6, 5, 7, 9, 3] := by decide
example : Stack.run .savedSlice (fun c => c + 1) (Stack.init 1) exTrace = [6, 5, 7, 9, 3] := by decide
example : Stack.run .offset (fun c => 2 * c + 1) (Stack.init 2) exTrace = [6, 5, 7, 9, 3] := by decide
example : Stack.run .reslice (fun c => 2 * c + 1) (Stack.init 2) exTrace = [6, 5, 7, 0, 3] := by decide
example : Stack.run .reslice (fun c => 2 * c + 1) (Stack.init 100) exTrace = [6, 5, 7, 9, 3] := by decide

end GoawkModel.C16

/-! ## Pinned source text (regenerated tie; extract/pins.go, tools/repin.py)
An edit of one of these functions in /repo breaks the matching obligation: the model below was written from the text
in `Proofs.C16Pins` and has to be compared with the new text before it is re-pinned. -/
namespace GoawkModel.Pins.C16
theorem pin_resolve : Generated.C16Pins.resolve = Expected.resolve := rfl
theorem pin_resolver_lookupVar : Generated.C16Pins.resolver_lookupVar = Expected.resolver_lookupVar := rfl
theorem pin_resolver_recordVar : Generated.C16Pins.resolver_recordVar = Expected.resolver_recordVar := rfl
theorem pin_callGraphVisitor_Visit : Generated.C16Pins.callGraphVisitor_Visit = Expected.callGraphVisitor_Visit := rfl
theorem pin_mainVisitor_walkOrdered : Generated.C16Pins.mainVisitor_walkOrdered = Expected.mainVisitor_walkOrdered := rfl
theorem pin_mainVisitor_Visit : Generated.C16Pins.mainVisitor_Visit = Expected.mainVisitor_Visit := rfl
theorem pin_topoSort : Generated.C16Pins.topoSort = Expected.topoSort := rfl
theorem pin_list : Generated.C16Pins.pinned = Expected.pinned := rfl
end GoawkModel.Pins.C16
-- end of pinned source text
