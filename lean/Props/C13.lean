import Proofs.C13Pins
import Proofs.C13
import Proofs.C13Streams
import Proofs.C13Newline
import Proofs.C13Csv
/-!
# C13 — output reaches each destination completely, in order, exactly once

Theorems about the output model `GoawkModel.C13` (buffers inside the interpreter, destinations as logs, ghost logs of what
the program wrote). `b : Beh` (what commands do) is arbitrary in every theorem. The tie to /repo is the differential run in
harness/c13 (real files, /bin/sh children, plain / bufio / flush-recording / failing Config.Output).
-/
namespace GoawkModel.C13.Props
open GoawkModel GoawkModel.C13

/-! ### standard output: complete, in order, for every history and every way a run can end -/

/-- For every history — ending because the operations ran out, by `exit`, or by a run-time error — what has reached the
underlying standard output after `closeAll` is exactly what the program and its children wrote, in order; and without a
fault no write error is reported. Unbounded in the number of operations, streams and bytes. -/
theorem stdout_complete (b : Beh) (buffered : Bool) (fs : List (Name × Bytes)) (ops : List Op) :
    (run b (St.init buffered none fs) ops).2.2.out = (run b (St.init buffered none fs) ops).2.2.outLog ∧
    (run b (St.init buffered none fs) ops).2.1 ≠ .error .stdoutWrite :=
  run_stdout_complete b ops _ (stdInv_init buffered fs)

/-- the same from any state satisfying the invariant (delivered ++ waiting = written) -/
theorem exit_and_error_flush (b : Beh) (s : St) (h : StdInv s) (ops : List Op) :
    (run b s ops).2.2.out = (run b s ops).2.2.outLog :=
  (run_stdout_complete b ops s h).1

/-- `exit` and run-time errors end the run through `closeAll`, like running out of operations -/
theorem exit_runs_closeAll (b : Beh) (s : St) (code : Nat) (rest : List Op) :
    run b s (.exit code :: rest) = ([.exit code], .ok code, finish b s) := by simp [run, step]

theorem error_runs_closeAll (b : Beh) (s : St) (rest : List Op) :
    run b s (.fail :: rest) = ([.err .divZero], .error .divZero, finish b s) := by simp [run, step]

/-! ### flush before a child is started -/

/-- when `print | cmd` starts the command, nothing is waiting in the standard-output buffer -/
theorem flushed_before_child_pipe (b : Beh) (s : St) (h : StdInv s) (n : Name) (c : Bytes) (hn : find n s.streams = none) :
    (step b s (.printTo .pipe n c)).1.outBuf = [] ∧ (step b s (.printTo .pipe n c)).1.out = s.outLog := by
  have hf := flushOut_inv s h
  have hl := hf.1.log
  rw [hf.2.1] at hl
  have e := (flushOut_frame s).1
  simp only [step, hn]
  exact ⟨hf.2.1, by simpa [e] using hl⟩

/-- `system` starts its child only after every stream and standard output have been flushed -/
theorem flushed_before_child_system (s : St) (h : StdInv s) :
    (flushAll s).1.outBuf = [] ∧ (flushAll s).2 = true :=
  (flushAll_inv s h).2

/-! ### one name, one stream; truncation happens once -/

/-- while a name is open for writing, `>`, `>>` and `|` on it all append to the same stream: no new stream, the file is not
touched (in particular not truncated again) -/
theorem one_name_one_stream (b : Beh) (s : St) (n : Name) (st : Stream) (c : Bytes) (rd : Redir)
    (h : find n s.streams = some st) (hk : st.kind ≠ .rd) :
    step b s (.printTo rd n c) =
      ({ s with streams := set n { st with buf := st.buf ++ c, log := st.log ++ c } s.streams }, .none) := by
  simp [step, h, hk]

theorem trunc_once (b : Beh) (s : St) (n : Name) (st : Stream) (c : Bytes)
    (h : find n s.streams = some st) (hk : st.kind ≠ .rd) :
    (step b s (.printTo .gt n c)).1.fs = s.fs := by
  simp [step, h, hk]

/-- `>` on a name that is not open truncates the file and starts the stream's log -/
theorem open_gt_truncates (b : Beh) (s : St) (n : Name) (c : Bytes) (h : find n s.streams = none)
    (h1 : n ≠ dash) (h2 : n ≠ devStderr) (h3 : n ≠ devStdout) :
    content (step b s (.printTo .gt n c)).1.fs n = [] ∧
    find n (step b s (.printTo .gt n c)).1.streams = some { kind := .file, buf := c, sent := [], base := [], log := c } := by
  simp [step, h, h1, h2, h3, content_set_self, find]

/-- `>>` never truncates: opening keeps every file's content, and the stream's base is the old content -/
theorem append_never_truncates (b : Beh) (s : St) (n : Name) (c : Bytes) (h : find n s.streams = none)
    (h1 : n ≠ dash) (h2 : n ≠ devStderr) (h3 : n ≠ devStdout) (m : Name) :
    content (step b s (.printTo .app n c)).1.fs m = content s.fs m ∧
    find n (step b s (.printTo .app n c)).1.streams =
      some { kind := .file, buf := c, sent := [], base := content s.fs n, log := c } := by
  have hfl : (flushOut s).1.fs = s.fs ∧ (flushOut s).1.streams = s.streams := ⟨(flushOut_frame s).2.1, (flushOut_frame s).2.2.1⟩
  by_cases hm : m = n
  · subst hm
    simp [step, h, h1, h2, h3, hfl.1, hfl.2, content_set_self, find]
  · simp [step, h, h1, h2, h3, hfl.1, hfl.2, content_set_ne hm, find]

/-! ### at close the destination holds everything -/

/-- closing a file: its content is (what it held right after the open) ++ (every write since, in order) -/
theorem file_content_at_close (b : Beh) (s : St) (n : Name) (st : Stream) (h : find n s.streams = some st)
    (hk : st.kind = .file) (hi : EntryOK s.fs n st) :
    content (step b s (.close n)).1.fs n = st.base ++ st.log ∧ (step b s (.close n)).2 = .num 0 ∧
    find n (step b s (.close n)).1.streams = none := by
  simp [step, h, closeStream, hk, deliver, content_set_self, hi.1 hk, find_remove_self]

/-- closing a command: its standard input was every byte written to it, in order, and close returns its exit status -/
theorem cmd_gets_everything (b : Beh) (s : St) (n : Name) (st : Stream) (h : find n s.streams = some st)
    (hk : st.kind = .cmd) (hi : EntryOK s.fs n st) :
    (step b s (.close n)).2 = .num (b.pipe n st.log).2 ∧
    (step b s (.close n)).1.procs = s.procs ++ [(n, st.log, (b.pipe n st.log).2)] := by
  have e := hi.2 hk
  constructor
  · simp [step, h, closeStream, hk, e]
  · simp only [step, h, closeStream, hk, e, childOut]
    split <;> (try split) <;> simp [rawOut] <;> (split <;> (try split) <;> rfl)

/-- the entry invariant holds when a stream is opened and is kept by writes to it and by fflush -/
theorem entry_ok_open_write (n : Name) (old c c' : Bytes) (fs : List (Name × Bytes)) :
    EntryOK (set n old fs) n { kind := .file, buf := c, sent := [], base := old, log := c } ∧
    EntryOK (set n old fs) n { kind := .file, buf := c ++ c', sent := [], base := old, log := c ++ c' } := by
  simp [EntryOK, content_set_self]

theorem entry_ok_deliver (s : St) (n : Name) (st : Stream) (h : EntryOK s.fs n st) :
    EntryOK (deliver s n st).1.fs n (deliver s n st).2 := by
  obtain ⟨h1, h2⟩ := h
  unfold deliver
  cases hk : st.kind with
  | file => simp [EntryOK, content_set_self, h1 hk]
  | cmd => simp [EntryOK, ← h2 hk]
  | rd => simp [EntryOK, hk]

/-! ### whole histories: files, commands, one name — one stream

`after b s ops` is the state after executing `ops`; `run_ends_with_closeAll` says a run's final state is `finish` (closeAll)
of `after` of the operations that were executed — all of them, or up to and including the `exit` / failing operation. The
invariant `SInv` (distinct keys in the stream table + what each stream's buffers owe its destination) holds in the initial
state and after every history. `writesTo n ops` is the concatenation, in program order, of everything `ops` print to the name
`n` through any redirect. -/

theorem inv_always (b : Beh) (buffered : Bool) (failAt : Option Nat) (fs : List (Name × Bytes)) (ops : List Op) :
    SInv (after b (St.init buffered failAt fs) ops) :=
  after_sinv b ops _ (sinv_init buffered failAt fs)

theorem run_ends_with_closeAll (b : Beh) (s : St) (ops : List Op) :
    ∃ pre, pre <+: ops ∧ (run b s ops).2.2 = finish b (after b s pre) :=
  run_final b ops s

/-- One name denotes one open stream until close(): from the moment `n` is open for output, through any history that does not
contain `close(n)` — prints to `n` by `>`, `>>` or `|`, prints elsewhere, flushes, system, getline, closes of other names —
`n` is still the same stream (same kind, same starting content) and its log is the old log followed by exactly the writes
to `n`, in order. -/
theorem one_stream_until_close (b : Beh) (s : St) (n : Name) (st : Stream) (ops : List Op)
    (h : find n s.streams = some st) (hk : st.kind ≠ .rd) (hc : (Op.close n) ∉ ops) :
    ∃ st', find n (after b s ops).streams = some st' ∧ st'.kind = st.kind ∧ st'.base = st.base ∧
      st'.log = st.log ++ writesTo n ops :=
  after_entry b n ops s st h hk hc

private theorem open_file_entry (b : Beh) (s : St) (r : Redir) (n : Name) (c0 : Bytes) (hr : r ≠ .pipe)
    (hn : find n s.streams = none) (h1 : n ≠ dash) (h2 : n ≠ devStderr) (h3 : n ≠ devStdout) :
    find n (step b s (.printTo r n c0)).1.streams =
      some { kind := .file, buf := c0, sent := [], base := if r = .gt then [] else content s.fs n, log := c0 } := by
  have ff := flushOut_frame' s
  simp [step, hn, hr, h1, h2, h3, find_cons, ff.2.1]

/-- file_content, at close: open `n` with `>` or `>>` (it was not open), run ANY history without `close(n)`, then `close(n)`:
the file holds (nothing, if opened with `>`; else what it held) ++ the first write ++ every later write to `n` in program
order — whichever redirect those later writes used (trunc_once), and close returns 0. -/
theorem file_content (b : Beh) (s : St) (hs : SInv s) (r : Redir) (n : Name) (c0 : Bytes) (ops : List Op)
    (hr : r ≠ .pipe) (hn : find n s.streams = none) (h1 : n ≠ dash) (h2 : n ≠ devStderr) (h3 : n ≠ devStdout)
    (hc : (Op.close n) ∉ ops) :
    content (after b s (.printTo r n c0 :: ops ++ [.close n])).fs n =
      (if r = .gt then [] else content s.fs n) ++ c0 ++ writesTo n ops := by
  have e0 := open_file_entry b s r n c0 hr hn h1 h2 h3
  obtain ⟨st', hf, hk, hb, hl⟩ := after_entry b n ops _ _ e0 (by simp) hc
  have hs2 : SInv (after b (step b s (.printTo r n c0)).1 ops) := after_sinv b ops _ (step_sinv b s _ hs)
  have hc := file_content_at_close b _ n st' hf hk (hs2.ok n st' hf)
  simp only [List.cons_append, after, after_append]
  rw [hc.1, hb, hl, List.append_assoc]

/-- file_content, at end of run: the same when the stream is still open when the run ends -/
theorem file_content_end (b : Beh) (s : St) (hs : SInv s) (r : Redir) (n : Name) (c0 : Bytes) (ops : List Op)
    (hr : r ≠ .pipe) (hn : find n s.streams = none) (h1 : n ≠ dash) (h2 : n ≠ devStderr) (h3 : n ≠ devStdout)
    (hc : (Op.close n) ∉ ops) :
    content (finish b (after b s (.printTo r n c0 :: ops))).fs n =
      (if r = .gt then [] else content s.fs n) ++ c0 ++ writesTo n ops := by
  have e0 := open_file_entry b s r n c0 hr hn h1 h2 h3
  obtain ⟨st', hf, hk, hb, hl⟩ := after_entry b n ops _ _ e0 (by simp) hc
  have hs2 : SInv (after b (step b s (.printTo r n c0)).1 ops) := after_sinv b ops _ (step_sinv b s _ hs)
  have hfin := (finish_entries b _ hs2 n st' hf).1 hk
  simp only [after]
  rw [hfin, hb, hl, List.append_assoc]

/-- … for a whole run from the initial state, however it ends (operations exhausted, `exit`, run-time error): whenever the
executed part of the history is `before ++ [open n] ++ ops` with `n` not open after `before` and no `close(n)` in `ops`, the
final file system holds the expected bytes under `n`. -/
theorem file_content_run (b : Beh) (buffered : Bool) (failAt : Option Nat) (fs : List (Name × Bytes)) (all : List Op) :
    ∃ pre, pre <+: all ∧ ∀ (before ops : List Op) (r : Redir) (n : Name) (c0 : Bytes),
      pre = before ++ .printTo r n c0 :: ops → r ≠ .pipe →
      find n (after b (St.init buffered failAt fs) before).streams = none → n ≠ dash → n ≠ devStderr → n ≠ devStdout →
      (Op.close n) ∉ ops →
      content (run b (St.init buffered failAt fs) all).2.2.fs n =
        (if r = .gt then [] else content (after b (St.init buffered failAt fs) before).fs n) ++ c0 ++ writesTo n ops := by
  obtain ⟨pre, hp, he⟩ := run_final b all (St.init buffered failAt fs)
  refine ⟨pre, hp, ?_⟩
  intro before ops r n c0 hpre hr hn h1 h2 h3 hc
  rw [he, hpre, after_append]
  exact file_content_end b _ (inv_always b buffered failAt fs before) r n c0 ops hr hn h1 h2 h3 hc

private theorem open_cmd_entry (b : Beh) (s : St) (n : Name) (c0 : Bytes) (hn : find n s.streams = none) :
    find n (step b s (.printTo .pipe n c0)).1.streams = some { kind := .cmd, buf := c0, sent := [], base := [], log := c0 } := by
  simp [step, hn, find_cons]

/-- cmd_gets_everything + "close() reports the command's exit status", for whole histories: start a command with `| n`, run
ANY history without `close(n)`, then `close(n)`: the command is run on exactly the first write followed by every later write
to `n` in program order, that is appended to the process log, and close returns the command's exit status. -/
theorem cmd_gets_everything_history (b : Beh) (s : St) (hs : SInv s) (n : Name) (c0 : Bytes) (ops : List Op)
    (hn : find n s.streams = none) (hc : (Op.close n) ∉ ops) :
    let s' := after b s (.printTo .pipe n c0 :: ops)
    let input := c0 ++ writesTo n ops
    (step b s' (.close n)).2 = .num (b.pipe n input).2 ∧
    (step b s' (.close n)).1.procs = s'.procs ++ [(n, input, (b.pipe n input).2)] := by
  have e0 := open_cmd_entry b s n c0 hn
  obtain ⟨st', hf, hk, _, hl⟩ := after_entry b n ops _ _ e0 (by simp) hc
  have hs2 : SInv (after b (step b s (.printTo .pipe n c0)).1 ops) := after_sinv b ops _ (step_sinv b s _ hs)
  have h := cmd_gets_everything b _ n st' hf hk (hs2.ok n st' hf)
  simp only [after]
  rw [← hl]
  exact h

theorem close_reports_status (b : Beh) (s : St) (hs : SInv s) (n : Name) (c0 : Bytes) (ops : List Op)
    (hn : find n s.streams = none) (hc : (Op.close n) ∉ ops) :
    (step b (after b s (.printTo .pipe n c0 :: ops)) (.close n)).2 = .num (b.pipe n (c0 ++ writesTo n ops)).2 :=
  (cmd_gets_everything_history b s hs n c0 ops hn hc).1

/-- … and when the command is still open at the end of the run, `closeAll` runs it on exactly the same input -/
theorem cmd_gets_everything_end (b : Beh) (s : St) (hs : SInv s) (n : Name) (c0 : Bytes) (ops : List Op)
    (hn : find n s.streams = none) (hc : (Op.close n) ∉ ops) :
    (n, c0 ++ writesTo n ops, (b.pipe n (c0 ++ writesTo n ops)).2) ∈ (finish b (after b s (.printTo .pipe n c0 :: ops))).procs := by
  have e0 := open_cmd_entry b s n c0 hn
  obtain ⟨st', hf, hk, _, hl⟩ := after_entry b n ops _ _ e0 (by simp) hc
  have hs2 : SInv (after b (step b s (.printTo .pipe n c0)).1 ops) := after_sinv b ops _ (step_sinv b s _ hs)
  have hfin := (finish_entries b _ hs2 n st' hf).2 hk
  simp only [after]
  rw [← hl]
  exact hfin

/-- for a whole run, however it ends -/
theorem cmd_gets_everything_run (b : Beh) (buffered : Bool) (failAt : Option Nat) (fs : List (Name × Bytes)) (all : List Op) :
    ∃ pre, pre <+: all ∧ ∀ (before ops : List Op) (n : Name) (c0 : Bytes),
      pre = before ++ .printTo .pipe n c0 :: ops →
      find n (after b (St.init buffered failAt fs) before).streams = none → (Op.close n) ∉ ops →
      (n, c0 ++ writesTo n ops, (b.pipe n (c0 ++ writesTo n ops)).2) ∈ (run b (St.init buffered failAt fs) all).2.2.procs := by
  obtain ⟨pre, hp, he⟩ := run_final b all (St.init buffered failAt fs)
  refine ⟨pre, hp, ?_⟩
  intro before ops n c0 hpre hn hc
  rw [he, hpre, after_append]
  exact cmd_gets_everything_end b _ (inv_always b buffered failAt fs before) n c0 ops hn hc

/-- exactly once: `closeAll` adds exactly one process-log entry for a command that is still open at the end of the run (and
none for a name that is not an open command) -/
theorem cmd_run_exactly_once_at_end (b : Beh) (s : St) (hs : SInv s) (n : Name) (st : Stream)
    (h : find n s.streams = some st) (hk : st.kind = .cmd) :
    ((finish b s).procs.filter (fun p => p.1 = n)).length = (s.procs.filter (fun p => p.1 = n)).length + 1 := by
  have := finish_count b s n hs
  simpa [cnt, cmdHere, h, hk] using this

/-- a file that the history never prints to (and that is not open for writing) keeps its content, through the whole history
and `closeAll` -/
theorem unopened_files_untouched (b : Beh) (s : St) (ops : List Op) (n : Name) (hs : SInv s)
    (hn : find n s.streams = none) (hop : ∀ r c, Op.printTo r n c ∉ ops) :
    content (finish b (after b s ops)).fs n = content s.fs n := by
  have hw : NotWriter s.streams n := fun st hf => by rw [hn] at hf; cases hf
  have h1 := after_untouched b n ops s hs hw hop
  rw [finish_untouched b _ n (after_sinv b ops s hs) h1.1, h1.2]

/-- the process log after `closeAll`, exactly: the old log followed by one entry per command that was still open, in table
order, each run on exactly its log -/
theorem closeAll_process_log (b : Beh) (s : St) (hs : SInv s) :
    (finish b s).procs = s.procs ++ (s.streams.filter (fun p => p.2.kind = .cmd)).map
      (fun p => (p.1, p.2.log, (b.pipe p.1 p.2.log).2)) :=
  finish_procs b s hs

/-! What is NOT a theorem here: the clause "output of child processes that share standard output is never lost or corrupted by
concurrent writes from the program itself". The model runs a command at the moment its stream is closed, when the interpreter
is blocked in Wait, so it has no concurrent schedule to quantify over; on the real code the clause is false (finding F25,
replayed by the harness). The only other clause that is false of the code, `StdoutFailureFails` below, is kept as a
`def … : Prop` with its refutation. -/

/-! ### a failing standard output -/

/-- unbuffered Config.Output: the first print that does not fit makes the run fail, whatever follows -/
theorem stdout_failure_unbuffered (b : Beh) (s : St) (k : Nat) (c : Bytes) (rest : List Op)
    (hb : s.buffered = false) (hf : s.failAt = some k) (hc : k < s.out.length + c.length) :
    (run b s (.print c :: rest)).2.1 = .error .stdoutWrite := by
  have : ¬ (s.out.length + c.length ≤ k) := by omega
  simp [run, step, writeOut, hb, rawOut, hf, this]

/-- The full clause: whenever more was written to standard output than it accepted, the run does not end `ok`. -/
def StdoutFailureFails : Prop :=
  ∀ (b : Beh) (buffered : Bool) (k : Nat) (ops : List Op),
    let r := run b (St.init buffered (some k) []) ops
    k < r.2.2.outLog.length → ∀ st, r.2.1 ≠ .ok st

def nullBeh : Beh := { pipe := fun _ _ => ([], 0), sys := fun _ _ => ([], [], 0) }

/-- It is false of the code as it is when Config.Output is buffered (finding F17-api): `BEGIN { print "x" }` with an output
that accepts nothing ends `ok 0`; the only failing write is the final flush, whose error `closeAll` discards. -/
theorem stdout_failure_fails : ¬ StdoutFailureFails := by
  intro h
  have := h nullBeh true 0 [.print [120, 10]] (by decide) 0
  exact this (by decide)

/-! ### non-vacuity -/

def exOps : List Op :=
  [.print [97, 10], .printTo .gt [102] [120, 10], .printTo .app [102] [121, 10], .printTo .pipe [99] [122, 10], .print [98, 10],
   .close [102], .getlineFile [102], .system [115], .close [99], .exit 3, .print [33]]

def echoBeh : Beh := { pipe := fun _ i => (i, 7), sys := fun _ _ => ([], [104, 10], 0) }

example : StdInv (St.init true none []) := stdInv_init true []
example : (run echoBeh (St.init true none []) exOps).1 =
    [.none, .none, .none, .none, .none, .num 0, .line 1 [120], .num 0, .num 7, .exit 3] := by decide
example : (run echoBeh (St.init true none []) exOps).2.1 = .ok 3 := by decide
example : (run echoBeh (St.init true none []) exOps).2.2.out = [97, 10, 98, 10, 104, 10, 122, 10] := by decide
example : content (run echoBeh (St.init true none []) exOps).2.2.fs [102] = [120, 10, 121, 10] := by decide
example : (run echoBeh (St.init true none []) exOps).2.2.flushes = [[97, 10], [], [98, 10], [104, 10, 122, 10]] := by decide
example : (run nullBeh (St.init true (some 0) []) [.print [120, 10]]).2.1 = .ok 0 := by decide
example : (run nullBeh (St.init false (some 0) []) [.print [120, 10]]).2.1 = .error .stdoutWrite := by decide
example : EntryOK [([102], [120])] [102] { kind := .file, buf := [121], sent := [], base := [], log := [120, 121] } := by
  simp [EntryOK, content, find]


def winOps : List Op := [.printTo .pipe [102] [121], .fflushAll, .print [97], .close [103], .printTo .app [102] [122], .system [115]]

example : SInv (St.init true none [([102], [111])]) := sinv_init _ _ _
example : find [102] (St.init true none [([102], [111])]).streams = none ∧ (Op.close [102]) ∉ winOps := by decide
example : writesTo [102] winOps = [121, 122] := by decide
example : content (after echoBeh (St.init true none [([102], [111])]) (.printTo .gt [102] [120] :: winOps ++ [.close [102]])).fs [102] =
    [120, 121, 122] := by decide
example : content (after echoBeh (St.init true none [([102], [111])]) (.printTo .app [102] [120] :: winOps ++ [.close [102]])).fs [102] =
    [111, 120, 121, 122] := by decide
example : content (finish echoBeh (after echoBeh (St.init true none [([102], [111])]) (.printTo .gt [102] [120] :: winOps))).fs [102] =
    [120, 121, 122] := by decide
example : (step echoBeh (after echoBeh (St.init false none []) (.printTo .pipe [102] [120] :: winOps)) (.close [102])).2 = .num 7 := by decide
example : (finish echoBeh (after echoBeh (St.init false none []) (.printTo .pipe [102] [120] :: winOps))).procs =
    [([115], [], 0), ([102], [120, 121, 122], 7)] := by decide

/-! ### the newline-output mode: every write is delivered completely, whatever meets it at its boundaries

`print` hands each of its pieces (argument, OFS, argument, …, ORS; or `$0`, ORS) to `writeOutput` on its own, `printf` its
formatted string; `writeOutput` transforms per write (`xfWrite`), a destination receives `xfWrites mode writes`. -/

/-- raw mode (and the smart mode off Windows): the destination receives the bytes of the writes, unchanged, in order -/
theorem raw_mode_exact (ws : List Bytes) : xfWrites false ws = ws.flatten := xfWrites_raw ws

/-- CRLF mode delivers completely: read back with CR LF as the line end, what the destination received is every write (its
own CR LF pairs read as LF), in order — no byte of a write is lost at, or merged across, a write boundary; in particular a
CR that ends one write survives an LF that starts the next. For every sequence of writes. -/
theorem crlf_mode_complete (ws : List Bytes) : normCRLF (xfWrites true ws) = (ws.map normCRLF).flatten := by
  rw [xfWrites_crlf, normCRLF_expandLF]

/-- the shape of what is delivered in CRLF mode: the writes' texts (CR LF read as LF, per write) with every LF written as CR LF -/
theorem crlf_mode_shape (ws : List Bytes) : xfWrites true ws = expandLF (ws.map normCRLF).flatten := xfWrites_crlf ws

/-- Write boundaries are observable, exactly at one adjacency: handing `a ++ b` to `writeOutput` in one call delivers the same
bytes as handing over `a` and then `b` if and only if `a` does not end in CR while `b` starts with LF. (The mechanism behind
"print assembles its record and writes it once": `print "a\r"` would lose its CR.) -/
theorem write_boundaries_matter (a b : Bytes) :
    xfWrite true (a ++ b) = xfWrite true a ++ xfWrite true b ↔ ¬ (a.getLast? = some 13 ∧ b.head? = some 10) := by
  constructor
  · intro h hadj
    have h2 := congrArg normCRLF h
    simp only [xfWrite, if_true] at h2
    rw [← expandLF_append, normCRLF_expandLF, normCRLF_expandLF] at h2
    exact normCRLF_append_merges a b hadj.1 hadj.2 h2
  · intro h
    simp only [xfWrite, if_true]
    rw [normCRLF_append a b h, expandLF_append]

/-- `print v` in CRLF mode delivers `v` and ORS as two writes: the value's own bytes are all there, whatever ORS is -/
theorem print_one_arg_crlf (line ofs ors v : Bytes) :
    printBytes true line ofs ors [v] = xfWrite true v ++ xfWrite true ors := by
  simp [printBytes, printWrites, printArgWrites, xfWrites]

/-- a bare `print` delivers `$0` and ORS as two writes -/
theorem print_bare_crlf (line ofs ors : Bytes) :
    printBytes true line ofs ors [] = xfWrite true line ++ xfWrite true ors := by
  simp [printBytes, printWrites, xfWrites]

/-- statement-level histories (print statements in any form under any newline mode, assignments to OFS / ORS / `$0`, and all
other operations): standard output is complete for every ending -/
theorem stdout_complete_stmts (b : Beh) (buffered : Bool) (fs : List (Name × Bytes)) (f : Fmt) (stmts : List Stmt) :
    (run b (St.init buffered none fs) (lower f stmts)).2.2.out = (run b (St.init buffered none fs) (lower f stmts)).2.2.outLog :=
  (stdout_complete b buffered fs (lower f stmts)).1

example : xfWrites true [[97, 13], [10]] = [97, 13, 13, 10] := by decide
example : xfWrite true ([97, 13] ++ [10]) = [97, 13, 10] := by decide
example : normCRLF (xfWrites true [[97, 13], [10]]) = [97, 13, 10] := by decide
example : ¬ (([97, 13] : Bytes).getLast? = some 13 ∧ ([32] : Bytes).head? = some 10) := by decide
example : printBytes true [] [32] [10] [[97, 13]] = [97, 13, 13, 10] := by decide
example : printBytes true [] [10] [13, 10] [[97, 13], [98]] = [97, 13, 13, 10, 98, 13, 10] := by decide
example : printBytes true [120, 13] [32] [10] [] = [120, 13, 13, 10] := by decide
example : printBytes false [] [32] [10] [[97, 13, 10]] = [97, 13, 10, 10] := by decide
example : lower (Fmt.init true) [.setORS [13], .print none [[97]], .printf (some (.gt, [102])) [10, 98]] =
    [.print [97, 13], .printTo .gt [102] [13, 10, 98]] := by decide

/-! ### the CSV / TSV output mode: every record is delivered completely and in order

In OUTPUTMODE csv / tsv a `print` with arguments hands ONE encoded record (`csvRecord`) to its destination — whatever the
destination is (the statement is lowered to the same `print` / `printTo` operation as any other, so every theorem above about
standard output, files and commands applies to the encoded bytes). -/

/-- what a `print` with arguments becomes in a CSV mode: one operation carrying the encoded record; OFS, ORS and `$0` play no part -/
theorem csv_print_lowers (f : Fmt) (sep : Bytes) (h : f.csv = some sep) (d : Option (Redir × Name)) (a : Bytes) (args : List Bytes)
    (rest : List Stmt) :
    lower f (.print d (a :: args) :: rest) = emit d (csvRecord sep f.crlf (a :: args)) :: lower f rest := by
  simp [lower, printStmtBytes, h]

/-- a bare `print` and `printf` are not affected by the output mode -/
theorem csv_mode_bare_print (f : Fmt) (d : Option (Redir × Name)) (rest : List Stmt) :
    lower f (.print d [] :: rest) = emit d (printBytes f.crlf f.line f.ofs f.ors []) :: lower f rest := by
  cases h : f.csv <;> simp [lower, printStmtBytes, h]

/-- COMPLETENESS of the CSV mode (raw newline mode, any one-byte separator other than `"` and LF): reading what a destination
received for ANY sequence of printed records (every record has at least one field; the fields are arbitrary bytes: separators,
quotes, CR, LF, leading blanks, `\.`, empty) with a plain RFC-4180 reader gives back exactly those records, field by field, in
order — nothing is lost, split or merged, inside a record or across record boundaries. -/
theorem csv_mode_complete (c : UInt8) (hc : c ≠ 34 ∧ c ≠ 10) (rs : List (List Bytes)) (hrs : ∀ r ∈ rs, r ≠ []) :
    csvRead c (rs.map (csvRecord [c] false)).flatten .fieldStart [] [] [] = some rs := by
  simpa using csvRead_records c hc rs hrs []

/-- the record of one empty field is written as `""` (a bare line end would read back as no record at all in GoAWK's own reader) -/
theorem csv_empty_field_record (sep : Bytes) (crlf : Bool) : csvRecord sep crlf [[]] = [34, 34] ++ csvEol crlf := by
  simp [csvRecord]

/-- the names of this section are what they seem: two different names are two streams. Closing, flushing or writing under
another name `m` (for instance another spelling of the same path) leaves the open output stream `n` open, with the same log. -/
theorem two_names_two_streams (b : Beh) (s : St) (n m : Name) (st : Stream) (hf : find n s.streams = some st) (hk : st.kind ≠ .rd)
    (hne : m ≠ n) (op : Op) (hop : op = .close m ∨ op = .fflush m ∨ ∃ rd c, op = .printTo rd m c) :
    ∃ st', find n (step b s op).1.streams = some st' ∧ st'.kind = st.kind ∧ st'.log = st.log := by
  have hcl : op ≠ .close n := by
    rcases hop with h | h | ⟨rd, c, h⟩ <;> subst h <;> simp [hne]
  obtain ⟨st', h1, h2, _, h4⟩ := step_entry b s op n st hf hk hcl
  refine ⟨st', h1, h2, ?_⟩
  rcases hop with h | h | ⟨rd, c, h⟩ <;> subst h <;> simpa [opWrite, hne] using h4

/-- … and `close` of a name that is not open (however close its spelling is to an open one) closes nothing and returns -1 -/
theorem close_unopened_name (b : Beh) (s : St) (m : Name) (h : find m s.streams = none) : step b s (.close m) = (s, .num (-1)) := by
  simp [step, h]

example : csvRecord [44] false [[97], [98, 44, 99], [], [34], [32, 120], [92, 46]] =
    [97, 44, 34, 98, 44, 99, 34, 44, 44, 34, 34, 34, 34, 44, 34, 32, 120, 34, 44, 34, 92, 46, 34, 10] := by decide
example : csvRecord [59] true [[97, 13, 10, 98], [99]] = [34, 97, 13, 10, 98, 34, 59, 99, 13, 10] := by decide
example : csvRead 44 (csvRecord [44] false [[97], [98, 44, 99], [], [34]] ++ csvRecord [44] false [[]]) .fieldStart [] [] [] =
    some [[[97], [98, 44, 99], [], [34]], [[]]] := by decide
example : (44 : UInt8) ≠ 34 ∧ (44 : UInt8) ≠ 10 := by decide
example : lower { Fmt.init false with csv := some [44] } [.setOFS [45], .print none [[97], [98, 44]], .print none [], .setOM none, .print none [[97], [98]]] =
    [.print [97, 44, 34, 98, 44, 34, 10], .print [10], .print [97, 45, 98, 10]] := by decide
example : (find [102] (step echoBeh (after echoBeh (St.init true none []) [.printTo .gt [102] [120]]) (.close [46, 47, 102])).1.streams).map (·.log) =
    some [120] ∧ (step echoBeh (after echoBeh (St.init true none []) [.printTo .gt [102] [120]]) (.close [46, 47, 102])).2 = .num (-1) := by decide

end GoawkModel.C13.Props

/-! ## Pinned source text (regenerated tie; extract/pins.go, tools/repin.py)
An edit of one of these functions in /repo breaks the matching obligation: the model below was written from the text
in `Proofs.C13Pins` and has to be compared with the new text before it is re-pinned. -/
namespace GoawkModel.Pins.C13
theorem pin_getOutputStream : Generated.C13Pins.getOutputStream = Expected.getOutputStream := rfl
theorem pin_closeAll : Generated.C13Pins.closeAll = Expected.closeAll := rfl
theorem pin_flushAll : Generated.C13Pins.flushAll = Expected.flushAll := rfl
theorem pin_flushStream : Generated.C13Pins.flushStream = Expected.flushStream := rfl
theorem pin_flushWriter : Generated.C13Pins.flushWriter = Expected.flushWriter := rfl
theorem pin_flushOutputAndError : Generated.C13Pins.flushOutputAndError = Expected.flushOutputAndError := rfl
theorem pin_printErrorf : Generated.C13Pins.printErrorf = Expected.printErrorf := rfl
theorem pin_writeOutput : Generated.C13Pins.writeOutput = Expected.writeOutput := rfl
theorem pin_printLine : Generated.C13Pins.printLine = Expected.printLine := rfl
theorem pin_list : Generated.C13Pins.pinned = Expected.pinned := rfl
end GoawkModel.Pins.C13
-- end of pinned source text
