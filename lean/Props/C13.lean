/-! Property theorems for C13 (see /verif/DESIGN.md). Only property theorems and non-vacuity examples live here. -/
