import Proofs.C13
/-!
# C13 — output reaches each destination completely, in order, exactly once

Theorems about the output model `GoawkModel.C13` (buffers inside the interpreter, destinations as logs, ghost logs of what
the program wrote). `b : Beh` (what commands do) is arbitrary in every theorem. The tie to /repo is the differential run in
harness/c13 (real files, /bin/sh children, plain / bufio / flush-recording / failing Config.Output).
-/
namespace GoawkModel.C13.Props
open GoawkModel GoawkModel.C13

/-! ### standard output: complete, in order, for every history and every way a run can end -/

/-- For every history — ending because the operations ran out, by `exit`, or by a run-time error — what has reached the
underlying standard output after `closeAll` is exactly what the program and its children wrote, in order; and without a
fault no write error is reported. Unbounded in the number of operations, streams and bytes. -/
theorem stdout_complete (b : Beh) (buffered : Bool) (fs : List (Name × Bytes)) (ops : List Op) :
    (run b (St.init buffered none fs) ops).2.2.out = (run b (St.init buffered none fs) ops).2.2.outLog ∧
    (run b (St.init buffered none fs) ops).2.1 ≠ .error .stdoutWrite :=
  run_stdout_complete b ops _ (stdInv_init buffered fs)

/-- the same from any state satisfying the invariant (delivered ++ waiting = written) -/
theorem exit_and_error_flush (b : Beh) (s : St) (h : StdInv s) (ops : List Op) :
    (run b s ops).2.2.out = (run b s ops).2.2.outLog :=
  (run_stdout_complete b ops s h).1

/-- `exit` and run-time errors end the run through `closeAll`, like running out of operations -/
theorem exit_runs_closeAll (b : Beh) (s : St) (code : Nat) (rest : List Op) :
    run b s (.exit code :: rest) = ([.exit code], .ok code, finish b s) := by simp [run, step]

theorem error_runs_closeAll (b : Beh) (s : St) (rest : List Op) :
    run b s (.fail :: rest) = ([.err .divZero], .error .divZero, finish b s) := by simp [run, step]

/-! ### flush before a child is started -/

/-- when `print | cmd` starts the command, nothing is waiting in the standard-output buffer -/
theorem flushed_before_child_pipe (b : Beh) (s : St) (h : StdInv s) (n : Name) (c : Bytes) (hn : find n s.streams = none) :
    (step b s (.printTo .pipe n c)).1.outBuf = [] ∧ (step b s (.printTo .pipe n c)).1.out = s.outLog := by
  have hf := flushOut_inv s h
  have hl := hf.1.log
  rw [hf.2.1] at hl
  have e := (flushOut_frame s).1
  simp only [step, hn]
  exact ⟨hf.2.1, by simpa [e] using hl⟩

/-- `system` starts its child only after every stream and standard output have been flushed -/
theorem flushed_before_child_system (s : St) (h : StdInv s) :
    (flushAll s).1.outBuf = [] ∧ (flushAll s).2 = true :=
  (flushAll_inv s h).2

/-! ### one name, one stream; truncation happens once -/

/-- while a name is open for writing, `>`, `>>` and `|` on it all append to the same stream: no new stream, the file is not
touched (in particular not truncated again) -/
theorem one_name_one_stream (b : Beh) (s : St) (n : Name) (st : Stream) (c : Bytes) (rd : Redir)
    (h : find n s.streams = some st) (hk : st.kind ≠ .rd) :
    step b s (.printTo rd n c) =
      ({ s with streams := set n { st with buf := st.buf ++ c, log := st.log ++ c } s.streams }, .none) := by
  simp [step, h, hk]

theorem trunc_once (b : Beh) (s : St) (n : Name) (st : Stream) (c : Bytes)
    (h : find n s.streams = some st) (hk : st.kind ≠ .rd) :
    (step b s (.printTo .gt n c)).1.fs = s.fs := by
  simp [step, h, hk]

/-- `>` on a name that is not open truncates the file and starts the stream's log -/
theorem open_gt_truncates (b : Beh) (s : St) (n : Name) (c : Bytes) (h : find n s.streams = none)
    (h1 : n ≠ dash) (h2 : n ≠ devStderr) (h3 : n ≠ devStdout) :
    content (step b s (.printTo .gt n c)).1.fs n = [] ∧
    find n (step b s (.printTo .gt n c)).1.streams = some { kind := .file, buf := c, sent := [], base := [], log := c } := by
  simp [step, h, h1, h2, h3, content_set_self, find]

/-- `>>` never truncates: opening keeps every file's content, and the stream's base is the old content -/
theorem append_never_truncates (b : Beh) (s : St) (n : Name) (c : Bytes) (h : find n s.streams = none)
    (h1 : n ≠ dash) (h2 : n ≠ devStderr) (h3 : n ≠ devStdout) (m : Name) :
    content (step b s (.printTo .app n c)).1.fs m = content s.fs m ∧
    find n (step b s (.printTo .app n c)).1.streams =
      some { kind := .file, buf := c, sent := [], base := content s.fs n, log := c } := by
  have hfl : (flushOut s).1.fs = s.fs ∧ (flushOut s).1.streams = s.streams := ⟨(flushOut_frame s).2.1, (flushOut_frame s).2.2.1⟩
  by_cases hm : m = n
  · subst hm
    simp [step, h, h1, h2, h3, hfl.1, hfl.2, content_set_self, find]
  · simp [step, h, h1, h2, h3, hfl.1, hfl.2, content_set_ne hm, find]

/-! ### at close the destination holds everything -/

/-- entry invariant of a stream (kept by every operation; validated on the real code by correspondence) -/
def EntryOK (fs : List (Name × Bytes)) (n : Name) (st : Stream) : Prop :=
  (st.kind = .file → content fs n ++ st.buf = st.base ++ st.log) ∧ (st.kind = .cmd → st.sent ++ st.buf = st.log)

/-- closing a file: its content is (what it held right after the open) ++ (every write since, in order) -/
theorem file_content_at_close (b : Beh) (s : St) (n : Name) (st : Stream) (h : find n s.streams = some st)
    (hk : st.kind = .file) (hi : EntryOK s.fs n st) :
    content (step b s (.close n)).1.fs n = st.base ++ st.log ∧ (step b s (.close n)).2 = .num 0 ∧
    find n (step b s (.close n)).1.streams = none := by
  simp [step, h, closeStream, hk, deliver, content_set_self, hi.1 hk, find_remove_self]

/-- closing a command: its standard input was every byte written to it, in order, and close returns its exit status -/
theorem cmd_gets_everything (b : Beh) (s : St) (n : Name) (st : Stream) (h : find n s.streams = some st)
    (hk : st.kind = .cmd) (hi : EntryOK s.fs n st) :
    (step b s (.close n)).2 = .num (b.pipe n st.log).2 ∧
    (step b s (.close n)).1.procs = s.procs ++ [(n, st.log, (b.pipe n st.log).2)] := by
  have e := hi.2 hk
  constructor
  · simp [step, h, closeStream, hk, e]
  · simp only [step, h, closeStream, hk, e, childOut]
    split <;> (try split) <;> simp [rawOut] <;> (split <;> (try split) <;> rfl)

/-- the entry invariant holds when a stream is opened and is kept by writes to it and by fflush -/
theorem entry_ok_open_write (n : Name) (old c c' : Bytes) (fs : List (Name × Bytes)) :
    EntryOK (set n old fs) n { kind := .file, buf := c, sent := [], base := old, log := c } ∧
    EntryOK (set n old fs) n { kind := .file, buf := c ++ c', sent := [], base := old, log := c ++ c' } := by
  simp [EntryOK, content_set_self]

theorem entry_ok_deliver (s : St) (n : Name) (st : Stream) (h : EntryOK s.fs n st) :
    EntryOK (deliver s n st).1.fs n (deliver s n st).2 := by
  obtain ⟨h1, h2⟩ := h
  unfold deliver
  cases hk : st.kind with
  | file => simp [EntryOK, content_set_self, h1 hk]
  | cmd => simp [EntryOK, ← h2 hk]
  | rd => simp [EntryOK, hk]

/-! ### a failing standard output -/

/-- unbuffered Config.Output: the first print that does not fit makes the run fail, whatever follows -/
theorem stdout_failure_unbuffered (b : Beh) (s : St) (k : Nat) (c : Bytes) (rest : List Op)
    (hb : s.buffered = false) (hf : s.failAt = some k) (hc : k < s.out.length + c.length) :
    (run b s (.print c :: rest)).2.1 = .error .stdoutWrite := by
  have : ¬ (s.out.length + c.length ≤ k) := by omega
  simp [run, step, writeOut, hb, rawOut, hf, this]

/-- The full clause: whenever more was written to standard output than it accepted, the run does not end `ok`. -/
def StdoutFailureFails : Prop :=
  ∀ (b : Beh) (buffered : Bool) (k : Nat) (ops : List Op),
    let r := run b (St.init buffered (some k) []) ops
    k < r.2.2.outLog.length → ∀ st, r.2.1 ≠ .ok st

def nullBeh : Beh := { pipe := fun _ _ => ([], 0), sys := fun _ _ => ([], [], 0) }

/-- It is false of the code as it is when Config.Output is buffered (finding F17-api): `BEGIN { print "x" }` with an output
that accepts nothing ends `ok 0`; the only failing write is the final flush, whose error `closeAll` discards. -/
theorem stdout_failure_fails : ¬ StdoutFailureFails := by
  intro h
  have := h nullBeh true 0 [.print [120, 10]] (by decide) 0
  exact this (by decide)

/-! ### non-vacuity -/

def exOps : List Op :=
  [.print [97, 10], .printTo .gt [102] [120, 10], .printTo .app [102] [121, 10], .printTo .pipe [99] [122, 10], .print [98, 10],
   .close [102], .getlineFile [102], .system [115], .close [99], .exit 3, .print [33]]

def echoBeh : Beh := { pipe := fun _ i => (i, 7), sys := fun _ _ => ([], [104, 10], 0) }

example : StdInv (St.init true none []) := stdInv_init true []
example : (run echoBeh (St.init true none []) exOps).1 =
    [.none, .none, .none, .none, .none, .num 0, .line 1 [120], .num 0, .num 7, .exit 3] := by decide
example : (run echoBeh (St.init true none []) exOps).2.1 = .ok 3 := by decide
example : (run echoBeh (St.init true none []) exOps).2.2.out = [97, 10, 98, 10, 104, 10, 122, 10] := by decide
example : content (run echoBeh (St.init true none []) exOps).2.2.fs [102] = [120, 10, 121, 10] := by decide
example : (run echoBeh (St.init true none []) exOps).2.2.flushes = [[97, 10], [], [98, 10], [104, 10, 122, 10]] := by decide
example : (run nullBeh (St.init true (some 0) []) [.print [120, 10]]).2.1 = .ok 0 := by decide
example : (run nullBeh (St.init false (some 0) []) [.print [120, 10]]).2.1 = .error .stdoutWrite := by decide
example : EntryOK [([102], [120])] [102] { kind := .file, buf := [121], sent := [], base := [], log := [120, 121] } := by
  simp [EntryOK, content, find]

end GoawkModel.C13.Props
