/-! Property theorems for C10 (see /verif/DESIGN.md). Only property theorems and non-vacuity examples live here. -/
