import Proofs.C10Substr
import Proofs.C10Chars
import Proofs.C10Index
import Proofs.C10Sub
import Proofs.C10Align
import Proofs.C10Gen
import Proofs.C10Cache
import Proofs.C10Split
import Proofs.C10Fields
import Proofs.C10Store
/-!
# C10 — string, regex and int() builtins obey their defining equations

Theorems over the model `GoawkModel.C10` (vm.go `callBuiltin`, functions.go `substrChars`/`substrLengthChars`/`sub`/`split`,
value.go `floatToInt`). No bound on string length, positions, lengths or number of matches.

Standing assumptions, visible as hypotheses: a Go string is shorter than 2^63-1 bytes (`s.length < maxInt`); the amd64
result of converting NaN to an integer is `minInt` (only `substr` with NaN is affected and it is excluded, as in the property);
Go's `regexp` is abstract — theorems quantify over *every* match position / match list with the stated shape
(`a ≤ b ≤ |s|`, `MatchesWF`, `Aligned`), and the harness checks on every run that the real `regexp` delivers that shape.
-/
namespace GoawkModel.C10.Props
open GoawkModel GoawkModel.C10

/-! ## substr -/

/-- `substr(s, m, n)`, both modes: skip `max 1 ⌊m⌋ - 1` units (everything for +∞), then take `⌊n⌋` units (none if negative,
all that is left for +∞ or when fewer remain — `List.take`). Units are bytes, or runes in character mode. All finite, huge
and infinite m, n. -/
theorem substr_spec (chars : Bool) (s : Bytes) (m n : Num) (hs : (s.length : Int) < maxInt) (hm : m ≠ .nan) (hn : n ≠ .nan) :
    awkSubstrLen chars s m n =
      some (((units chars s).drop (skipCount (units chars s).length m)).take (takeCount (units chars s).length n)).flatten :=
  awkSubstrLen_spec chars s m n hs hm hn

/-- `substr(s, m)`: all remaining units -/
theorem substr_spec_two (chars : Bool) (s : Bytes) (m : Num) (hs : (s.length : Int) < maxInt) (hm : m ≠ .nan) :
    awkSubstr chars s m = some ((units chars s).drop (skipCount (units chars s).length m)).flatten :=
  awkSubstr_spec chars s m hs hm

/-- the slice expressions in both implementations never go out of range (no run-time panic), NaN included -/
theorem substr_total (chars : Bool) (s : Bytes) (m n : Num) :
    (awkSubstrLen chars s m n).isSome ∧ (awkSubstr chars s m).isSome := by
  constructor
  · have e : awkSubstrLen chars s m n = (if chars then substrLenChars s (floatToInt m) (floatToInt n)
        else substrLenBytes s (floatToInt m) (floatToInt n)) := rfl
    rw [e, substrLen_units]; rfl
  · have e : awkSubstr chars s m = (if chars then substrChars s (floatToInt m) else substrBytes s (floatToInt m)) := rfl
    rw [e, substr_units]; rfl

/-- in character mode every result is a run of whole runes of `s`: a valid UTF-8 sequence is never cut (any m, n, NaN too) -/
theorem substr_chars_no_cut (s : Bytes) (m n : Num) :
    (∃ j l, awkSubstrLen true s m n = some (((runes s).drop j).take l).flatten) ∧
    (∃ j, awkSubstr true s m = some ((runes s).drop j).flatten) :=
  ⟨⟨_, _, substrLenChars_eq s (floatToInt m) (floatToInt n)⟩, ⟨_, substrChars_eq s (floatToInt m)⟩⟩

/-- the rune decomposition is lossless and `length` in character mode counts its elements -/
theorem runes_lossless (s : Bytes) : (runes s).flatten = s ∧ awkLength true s = (runes s).length :=
  ⟨runes_flatten s, rfl⟩

/-! ## byte mode = character mode on ASCII -/

theorem ascii_modes_agree (s : Bytes) (h : ∀ b ∈ s, b < 128) (m n : Num) :
    awkSubstrLen true s m n = awkSubstrLen false s m n ∧ awkSubstr true s m = awkSubstr false s m ∧
    awkLength true s = awkLength false s := by
  have hu := units_ascii s h
  refine ⟨?_, ?_, ?_⟩
  · have e1 := substrLen_units true s (floatToInt m) (floatToInt n)
    have e2 := substrLen_units false s (floatToInt m) (floatToInt n)
    simp only [if_true] at e1
    simp only [Bool.false_eq_true, if_false] at e2
    simp only [awkSubstrLen, if_true, Bool.false_eq_true, if_false, e1, e2, hu]
  · have e1 := substr_units true s (floatToInt m)
    have e2 := substr_units false s (floatToInt m)
    simp only [if_true] at e1
    simp only [Bool.false_eq_true, if_false] at e2
    simp only [awkSubstr, if_true, Bool.false_eq_true, if_false, e1, e2, hu]
  · simp [awkLength, runeCount, runes_ascii s h]

theorem ascii_index_match_agree (s t : Bytes) (h : ∀ b ∈ s, b < 128) (a b : Nat) (hab : a ≤ b) (hb : b ≤ s.length) :
    awkIndex true s t = awkIndex false s t ∧ awkMatch true s (some (a, b)) = awkMatch false s (some (a, b)) ∧
    awkMatch true s none = awkMatch false s none := by
  have cnt : ∀ x : Bytes, (∀ c ∈ x, c < 128) → runeCount x = x.length := by
    intro x hx; simp [runeCount, runes_ascii x hx]
  refine ⟨?_, ?_, rfl⟩
  · simp only [awkIndex]
    cases hi : indexOf s t with
    | none => rfl
    | some i =>
      have hle := (indexOf_some s t i hi).2.1
      simp only [if_true, Bool.false_eq_true, if_false]
      rw [cnt (s.take i) (fun c hc => h c (List.mem_of_mem_take hc)), List.length_take]
      congr 2; omega
  · simp only [awkMatch, if_true, Bool.false_eq_true, if_false]
    rw [cnt (s.take a) (fun c hc => h c (List.mem_of_mem_take hc)),
      cnt ((s.drop a).take (b - a)) (fun c hc => h c (List.mem_of_mem_drop (List.mem_of_mem_take hc)))]
    simp only [List.length_take, List.length_drop]
    congr 1 <;> omega

/-! ## int() -/

/-- `trunc` is truncation toward zero: the integer part, never further from zero than x, less than 1 away -/
theorem trunc_is_truncation (q : Rat) :
    (0 ≤ q → ((trunc q : Int) : Rat) ≤ q ∧ q < ((trunc q + 1 : Int) : Rat)) ∧
    (q < 0 → q ≤ ((trunc q : Int) : Rat) ∧ ((trunc q - 1 : Int) : Rat) < q) :=
  ⟨trunc_spec_nonneg q, trunc_spec_neg q⟩

/-- `int(x) = trunc x` for every finite x, however large. The hypothesis is a fact about float64 (every value of magnitude
≥ 2^63 — indeed ≥ 2^52 — is an integer), not about the code. Infinities are returned unchanged. -/
theorem int_trunc (q : Rat)
    (hf : (q ≤ -(9223372036854775808 : Rat) ∨ (9223372036854775808 : Rat) ≤ q) → ∃ z : Int, q = (z : Rat)) :
    awkInt (.fin q) = .fin ((trunc q : Int) : Rat) :=
  awkInt_fin q hf

/-- the same with the float64 fact discharged: for every finite float64 value x, `int(x)` is x truncated toward zero -/
theorem int_trunc_float64 (q : Rat) (h : IsFloat64Value q) : awkInt (.fin q) = .fin ((trunc q : Int) : Rat) :=
  awkInt_float64 q h

theorem int_inf : awkInt .pinf = .pinf ∧ awkInt .ninf = .ninf := ⟨rfl, rfl⟩

/-! ## index -/

/-- `strings.Index` as modelled: the first occurrence, or none when there is no occurrence at all -/
theorem index_spec (s t : Bytes) :
    (∀ i, indexOf s t = some i → t <+: s.drop i ∧ i ≤ s.length ∧ ∀ j, j < i → ¬ t <+: s.drop j) ∧
    (indexOf s t = none → ∀ j, j ≤ s.length → ¬ t <+: s.drop j) ∧
    (awkIndex false s t = 0 ↔ indexOf s t = none) ∧ (awkIndex true s t = 0 ↔ indexOf s t = none) := by
  refine ⟨indexOf_some s t, indexOf_none s t, ?_, ?_⟩ <;>
  · simp only [awkIndex]
    cases indexOf s t with
    | none => simp
    | some i => simp; omega

/-- `substr(s, index(s,t), length(t)) = t` when t occurs; in character mode provided the occurrence found by the byte
search lies on rune boundaries of `s` (always so when t is valid UTF-8; see `index_chars_fails`) -/
theorem index_substr_partial (chars : Bool) (s t : Bytes) (i : Nat) (hs : (s.length : Int) < maxInt) (hi : indexOf s t = some i)
    (hal : chars = true → Aligned s i (i + t.length)) :
    awkSubstrLen chars s (ofInt (awkIndex chars s t)) (ofInt (awkLength chars t)) = some t := by
  obtain ⟨⟨r, hr⟩, hle, _⟩ := indexOf_some s t i hi
  have htake : (s.drop i).take t.length = t := by rw [← hr]; simp
  have htl : t.length ≤ s.length := by
    have := congrArg List.length hr
    simp only [List.length_append, List.length_drop] at this; omega
  cases chars with
  | false =>
    simp only [awkIndex, hi, awkLength, Bool.false_eq_true, if_false, awkSubstrLen]
    rw [floatToInt_ofInt _ (by simp only [minInt]; omega) (by omega), floatToInt_ofInt _ (by simp only [minInt]; omega) (by omega),
      substrLenBytes_eq]
    have e1 : ((i : Int) + 1 - 1).toNat = i := by omega
    rw [e1, Int.toNat_natCast, htake]
  | true =>
    obtain ⟨k, l, ha, hb, hkl⟩ := hal rfl
    have hsl := aligned_slice s k l
    rw [← ha, ← hb, Nat.add_sub_cancel_left, htake] at hsl
    have hk : runeCount (s.take i) = k := by rw [ha]; exact runeCount_prefix s k (by omega)
    have hl : runeCount t = l := by rw [hsl]; exact runeCount_run s k l hkl
    have hrl := runes_length_le s
    simp only [awkIndex, hi, awkLength, if_true, awkSubstrLen, hk, hl]
    rw [floatToInt_ofInt _ (by simp only [minInt]; omega) (by omega), floatToInt_ofInt _ (by simp only [minInt]; omega) (by omega),
      substrLenChars_eq]
    have e1 : ((k : Int) + 1 - 1).toNat = k := by omega
    rw [e1, Int.toNat_natCast, hsl]

/-- the unrestricted character-mode statement -/
def IndexSubstrChars : Prop :=
  ∀ (s t : Bytes) (i : Nat), indexOf s t = some i →
    awkSubstrLen true s (ofInt (awkIndex true s t)) (ofInt (awkLength true t)) = some t

/-- … is false of the code (finding G10-1): `index("é", "\xa9")` is 2 in character mode, and `substr("é", 2, 1)` is empty -/
theorem index_chars_fails : ¬ IndexSubstrChars := by
  intro h
  have := h [0xc3, 0xa9] [0xa9] 1 (by decide)
  revert this
  decide

/-! ## match -/

theorem match_none_iff (chars : Bool) (s : Bytes) (loc : Option (Nat × Nat)) :
    awkMatch chars s loc = (0, -1) ↔ loc = none := by
  cases loc with
  | none => simp [awkMatch]
  | some p =>
    obtain ⟨a, b⟩ := p
    cases chars <;> simp [awkMatch] <;> omega

/-- byte mode: `substr(s, RSTART, RLENGTH)` is the matched text, for every match position the engine can report -/
theorem match_substr_bytes (s : Bytes) (a b : Nat) (hs : (s.length : Int) < maxInt) (hab : a ≤ b) (hb : b ≤ s.length) :
    awkMatch false s (some (a, b)) = ((a : Int) + 1, (b : Int) - a) ∧
    awkSubstrLen false s (ofInt (awkMatch false s (some (a, b))).1) (ofInt (awkMatch false s (some (a, b))).2)
      = some ((s.drop a).take (b - a)) := by
  refine ⟨rfl, ?_⟩
  simp only [awkMatch, Bool.false_eq_true, if_false, awkSubstrLen]
  rw [floatToInt_ofInt _ (by simp only [minInt]; omega) (by omega), floatToInt_ofInt _ (by simp only [minInt]; omega) (by omega),
    substrLenBytes_eq]
  have e1 : ((a : Int) + 1 - 1).toNat = a := by omega
  have e2 : ((b : Int) - (a : Int)).toNat = b - a := by omega
  rw [e1, e2]

/-- character mode: RSTART and RLENGTH count runes, and `substr(s, RSTART, RLENGTH)` is the matched text, for every match
whose ends are rune boundaries (Go's regexp steps by decoded runes, so its matches always are; checked by the harness) -/
theorem match_substr_chars (s : Bytes) (a b : Nat) (hs : (s.length : Int) < maxInt) (hal : Aligned s a b) :
    awkSubstrLen true s (ofInt (awkMatch true s (some (a, b))).1) (ofInt (awkMatch true s (some (a, b))).2)
      = some ((s.drop a).take (b - a)) := by
  obtain ⟨k, l, ha, hb, hkl⟩ := hal
  have hsl := aligned_slice s k l
  rw [← ha, ← hb] at hsl
  have hk : runeCount (s.take a) = k := by rw [ha]; exact runeCount_prefix s k (by omega)
  have hl : runeCount ((s.drop a).take (b - a)) = l := by rw [hsl]; exact runeCount_run s k l hkl
  have hrl := runes_length_le s
  simp only [awkMatch, if_true, awkSubstrLen, hk, hl]
  rw [floatToInt_ofInt _ (by simp only [minInt]; omega) (by omega), floatToInt_ofInt _ (by simp only [minInt]; omega) (by omega),
    substrLenChars_eq]
  have e1 : ((k : Int) + 1 - 1).toNat = k := by omega
  rw [e1, Int.toNat_natCast, hsl]

/-! ## split -/

/-- a literal separator (single character other than space, or empty): the pieces joined by it give back `s`. Holds for every
non-space separator string the literal path accepts — ASCII, regex metacharacters, multi-byte, an invalid byte. -/
theorem split_join (s sep : Bytes) : joinWith sep (awkSplitLit s sep) = s :=
  joinWith_awkSplitLit s sep

/-! ## sub / gsub -/

/-- `gsub(r, "&", t)` leaves t unchanged and returns the number of matches -/
theorem gsub_amp_id (s : Bytes) (ms : List (Nat × Nat)) (h : MatchesWF s 0 ms) :
    awkSub s [38] true ms = (s, ms.length) := by
  have := subLoop_amp ms s 0 0 h
  simpa [awkSub] using this

/-- `gsub` returns the number of matches whatever the replacement -/
theorem gsub_count (s repl : Bytes) (ms : List (Nat × Nat)) : (awkSub s repl true ms).2 = ms.length := by
  have := subLoop_count ms s repl 0 0
  simpa [awkSub] using this

/-- `sub` performs exactly the first of `gsub`'s replacements -/
theorem sub_is_first (s repl : Bytes) (ms : List (Nat × Nat)) (h : MatchesWF s 0 ms) :
    awkSub s repl false ms = awkSub s repl true (ms.take 1) :=
  awkSub_first s repl ms h

/-- `&` is the match -/
theorem repl_amp (m : Bytes) : expand m [38] = m := by simp [expand]

/-- `\&` is a literal ampersand -/
theorem repl_escaped_amp (m : Bytes) : expand m [92, 38] = [38] := by simp [expand]

/-- every replacement text built from the tokens `&`, `\&`, `\\` and other bytes means the concatenation of its tokens' meanings -/
theorem repl_tokens (m : Bytes) (toks : List RTok) (h : ∀ t ∈ toks, t.ok) :
    expand m (toks.flatMap RTok.render) = toks.flatMap (RTok.meaning m) :=
  expand_tokens m toks h

/-! ## deepening: total replacement rule, split companions, `" "` separator, case mapping -/

/-- the exact rule of the replacement callback for EVERY replacement text: `tokenize` cuts any byte string into the tokens
`&`, `\&`, `\\`, backslash+other byte, a final lone backslash, other byte — losslessly and canonically — and `expand` is the
concatenation of the tokens' meanings (match, `&`, one backslash, and the token itself for the last three) -/
theorem repl_total (m r : Bytes) :
    (tokenize r).flatMap RTok.render = r ∧ expand m r = (tokenize r).flatMap (RTok.meaning m) ∧
    (∀ t ∈ (tokenize r).dropLast, t.ok) ∧ (∀ t ∈ tokenize r, t = .bsEnd ∨ t.ok) :=
  ⟨tokenize_render r, expand_tokenize m r, tokenize_init_ok r, tokenize_tokens r⟩

/-- a backslash before a byte other than `&` and backslash is kept, together with that byte; a final backslash is kept -/
theorem repl_backslash_other (m : Bytes) (c : UInt8) (r : Bytes) (h1 : c ≠ 38) (h2 : c ≠ 92) :
    expand m (92 :: c :: r) = 92 :: c :: expand m r ∧ expand m [92] = [92] :=
  ⟨expand_bsOther m c r h1 h2, by simp [expand]⟩

/-- companion of `split_join`: no piece of a literal-separator split contains the separator, so the pieces are exactly
the separator-free segments between successive first occurrences -/
theorem split_no_sep (s sep : Bytes) (hs : sep ≠ []) : ∀ p ∈ awkSplitLit s sep, indexOf p sep = none := by
  intro p hp
  simp only [awkSplitLit] at hp
  split at hp
  · simp at hp
  · simp only [stringsSplit, hs, if_false] at hp
    exact splitF_no_sep sep hs s.length s (Nat.le_refl _) p hp

/-- regex separator, for every well-formed match list: the pieces interleaved with the matched separators give back `s`;
a match that ends at offset 0 (an empty match at the very start) cuts nothing; there is one piece more than cutting
matches, except that no final piece follows a match that starts at the end of `s` (what `regexp.Split` does); leading,
trailing and adjacent non-empty matches give empty pieces -/
theorem split_regex_spec (s : Bytes) (ms : List (Nat × Nat)) (hs : s ≠ []) (h : MatchesWF s 0 ms) :
    weave (awkSplitRegex s ms) (cutTexts s ms) = s ∧
    (awkSplitRegex s ms).length = (cutTexts s ms).length + (if lastStart 0 ms = s.length then 0 else 1) := by
  simp only [awkSplitRegex, hs, if_false]
  exact ⟨by simpa using regexSplitLoop_weave ms s 0 0 h (Nat.le_refl _), regexSplitLoop_length ms s 0 0⟩

/-- `split(s, a, " ")` = `strings.Fields`: the fields are the maximal runs of runes that are not Unicode spaces — each is
non-empty and space-free, and together they are `s` with the space runes removed -/
theorem split_space_fields (s : Bytes) :
    stringsFields s = (groupsLoop isSpaceRune (runes s) []).map List.flatten ∧
    (∀ g ∈ groupsLoop isSpaceRune (runes s) [], g ≠ [] ∧ ∀ r ∈ g, isSpaceRune r = false) ∧
    (groupsLoop isSpaceRune (runes s) []).flatten = (runes s).filter (fun r => !isSpaceRune r) :=
  ⟨rfl, groupsLoop_groups isSpaceRune (runes s) [] (by simp), by simpa using groupsLoop_flatten isSpaceRune (runes s) []⟩

/-- … and the layout rules that determine them completely: leading separators are ignored; a non-empty separator-free word
followed by at least one separator is the next field; a final word needs no separator after it (trailing ones are ignored) -/
theorem split_space_layout {α : Type} (p : α → Bool) (w sp xs : List α) (hw : w ≠ []) (hwp : ∀ x ∈ w, p x = false)
    (hsp : ∀ x ∈ sp, p x = true) :
    groupsLoop p (sp ++ xs) [] = groupsLoop p xs [] ∧
    (sp ≠ [] → groupsLoop p (w ++ sp ++ xs) [] = w :: groupsLoop p xs []) ∧
    groupsLoop p w [] = [w] ∧ groupsLoop p ([] : List α) [] = [] :=
  ⟨groupsLoop_skip p sp xs hsp, fun hs => groupsLoop_field p w sp xs hw hwp hs hsp, groupsLoop_last p w hw hwp, rfl⟩

/-- on ASCII the separators of `" "` are exactly TAB LF VT FF CR and space -/
theorem split_space_ascii_blanks (b : UInt8) : isSpaceRune [b] = ((9 ≤ b && b ≤ 13) || b == 32) := isSpaceRune_ascii b

/-- tolower/toupper on ASCII text (either mode): bytewise, only A–Z / a–z move, by 32; length preserved; idempotent.
`uni` (Go's Unicode tables) plays no role. -/
theorem case_ascii (uni : Bytes → Bytes) (s : Bytes) (h : ∀ b ∈ s, b < 128) :
    mapCase asciiLower uni s = s.map asciiLower ∧ mapCase asciiUpper uni s = s.map asciiUpper ∧
    (∀ b : UInt8, (65 ≤ b ∧ b ≤ 90 → asciiLower b = b + 32) ∧ (¬(65 ≤ b ∧ b ≤ 90) → asciiLower b = b) ∧
      asciiLower (asciiLower b) = asciiLower b ∧ asciiUpper (asciiLower b) = asciiUpper b ∧ (b < 128 → asciiLower b < 128)) ∧
    (∀ b : UInt8, (97 ≤ b ∧ b ≤ 122 → asciiUpper b = b - 32) ∧ (¬(97 ≤ b ∧ b ≤ 122) → asciiUpper b = b) ∧
      asciiUpper (asciiUpper b) = asciiUpper b ∧ asciiLower (asciiUpper b) = asciiLower b ∧ (b < 128 → asciiUpper b < 128)) :=
  ⟨mapCase_ascii _ uni s h, mapCase_ascii _ uni s h, asciiLower_spec, asciiUpper_spec⟩

/-- for every string and every Unicode table: the result is rune by rune — ASCII bytes by the table wherever they stand,
an invalid byte becomes U+FFFD (so bytes ≥ 0x80 are NOT left alone, in byte mode either: the code calls
strings.ToLower/ToUpper in both modes), a valid multi-byte rune is `uni` of it; the all-ASCII fast path is the same function -/
theorem case_rune_by_rune (tbl : UInt8 → UInt8) (uni : Bytes → Bytes) (s : Bytes) :
    mapCase tbl uni s = ((runes s).map (caseRune tbl uni)).flatten ∧
    (∀ b, b < 128 → caseRune tbl uni [b] = [tbl b]) ∧ (∀ b, ¬ b < 128 → caseRune tbl uni [b] = [0xEF, 0xBF, 0xBD]) :=
  ⟨mapCase_eq tbl uni s, caseRune_singleton tbl uni, fun b hb => by simp [caseRune, hb]⟩

/-- split's result array is a function of the pieces only — of (s, sep) — never of what the target held before: in the model
(as in the code, pinned by `gen_matches_splitStore`) a new map replaces the target. Its keys are exactly 1..n in order, the
returned value is n = the number of pieces, element i is piece i, and no other key is present. -/
theorem split_result_fresh (old old' : AwkArray) (parts : List Bytes) :
    splitStore old parts = splitStore old' parts ∧
    (splitStore old parts).2 = parts.length ∧
    (splitStore old parts).1.map (·.1) = (List.range' 1 parts.length).map Key.idx ∧
    (splitStore old parts).1.map (·.2) = parts ∧
    (∀ j (h : j < parts.length), arrayGet (splitStore old parts).1 (.idx (1 + j)) = some parts[j]) ∧
    (∀ b, arrayGet (splitStore old parts).1 (.other b) = none) :=
  ⟨rfl, storeFrom_length parts 1, storeFrom_keys parts 1, storeFrom_values parts 1,
    fun j h => storeFrom_get parts 1 j h, fun b => storeFrom_get_other parts 1 b⟩

/-! ### stated, not proved -/

/-- valid UTF-8: every element of the rune decomposition is ASCII or a multi-byte sequence -/
def ValidUTF8 (t : Bytes) : Prop := ∀ r ∈ runes t, r.length > 1 ∨ ∃ b, r = [b] ∧ b < 128

/-- UTF-8 is self-synchronising: an occurrence of a valid needle lies on rune boundaries of the subject, so the alignment
hypothesis of `index_substr_partial` holds for every valid needle. NOT proved (observed on every index case of the harness
with a valid needle). -/
def ValidNeedleAligned : Prop :=
  ∀ (s t : Bytes) (i : Nat), ValidUTF8 t → indexOf s t = some i → Aligned s i (i + t.length)

/-- the match list `regexp` hands to the callbacks has the shape `MatchesWF` and is rune-aligned. NOT proved (the engine is
not modelled); checked against the real engine on every match/sub case by the driver's `laws` request. -/
def EngineMatchesWellFormed (findAll : Bytes → List (Nat × Nat)) : Prop :=
  ∀ s, MatchesWF s 0 (findAll s) ∧ ∀ p ∈ findAll s, Aligned s p.1 p.2

/-! ## the regex cache is transparent -/

/-- For every engine (`compile`, `longest`), every cache limit and every history of compilations starting from the empty cache
(any number of distinct regexes, before and after the cache is full): each call returns exactly what a fresh compilation
followed by `Longest()` returns — a cache hit, a miss that is stored and a miss that is not stored all give the same regex. -/
theorem regex_cache_transparent {R : Type} (compile : Bytes → Option R) (longest : R → R) (limit : Nat) (xs : List Bytes) :
    (compileAll compile longest limit [] xs).1 = xs.map fun x => (compile (addRegexFlags x)).map longest :=
  compileAll_transparent compile longest limit xs [] (by intro k v h; cases h)

/-- one step, from any cache all of whose entries are honest; the cache stays honest -/
theorem regex_cache_step {R : Type} (compile : Bytes → Option R) (longest : R → R) (limit : Nat)
    (cache : List (Bytes × R)) (x : Bytes) (hc : CacheOK compile longest cache) :
    (compileRegex compile longest limit cache x).1 = (compile (addRegexFlags x)).map longest ∧
    CacheOK compile longest (compileRegex compile longest limit cache x).2 :=
  compileRegex_transparent compile longest limit cache x hc

/-! ## the modelled source is the current source (regenerated facts) -/

theorem gen_matches_floatToInt : Generated.C10Builtins.floatToInt = Expected.floatToInt := rfl
theorem gen_matches_builtinSubstr : Generated.C10Builtins.builtinSubstr = Expected.builtinSubstr := rfl
theorem gen_matches_builtinSubstrLength : Generated.C10Builtins.builtinSubstrLength = Expected.builtinSubstrLength := rfl
theorem gen_matches_builtinInt : Generated.C10Builtins.builtinInt = Expected.builtinInt := rfl
theorem gen_matches_builtinIndex : Generated.C10Builtins.builtinIndex = Expected.builtinIndex := rfl
theorem gen_matches_builtinMatch : Generated.C10Builtins.builtinMatch = Expected.builtinMatch := rfl
theorem gen_matches_builtinLengthArg : Generated.C10Builtins.builtinLengthArg = Expected.builtinLengthArg := rfl
theorem gen_matches_builtinSub : Generated.C10Builtins.builtinSub = Expected.builtinSub := rfl
theorem gen_matches_builtinGsub : Generated.C10Builtins.builtinGsub = Expected.builtinGsub := rfl
theorem gen_matches_substrChars : Generated.C10Builtins.substrChars = Expected.substrChars := rfl
theorem gen_matches_substrLengthChars : Generated.C10Builtins.substrLengthChars = Expected.substrLengthChars := rfl
theorem gen_matches_sub : Generated.C10Builtins.sub = Expected.sub := rfl
theorem gen_matches_splitCases : Generated.C10Builtins.splitCases = Expected.splitCases := rfl
theorem gen_matches_compileRegex : Generated.C10Builtins.compileRegex = Expected.compileRegex := rfl
theorem gen_matches_splitStore : Generated.C10Builtins.splitStore = Expected.splitStore := rfl
theorem gen_matches_maxCachedRegexes : Generated.C10Builtins.maxCachedRegexes = Expected.maxCachedRegexes := rfl
theorem gen_matches_maxCachedFormats : Generated.C10Builtins.maxCachedFormats = Expected.maxCachedFormats := rfl
theorem gen_matches_addRegexFlags : Generated.C10Builtins.addRegexFlags = Expected.addRegexFlags := rfl

/-! ## non-vacuity: concrete instances meeting the hypotheses -/

example : awkSubstrLen false [104, 101, 108, 108, 111] (.fin 0) (.fin 2) = some [104, 101] := by decide
example : awkSubstrLen false [104, 101, 108, 108, 111] (.fin 2) (.fin 1000000000000000019884624838656) = some [101, 108, 108, 111] := by decide
example : awkSubstr true [97, 0xc3, 0xa9, 0xff, 98] .pinf = some [] ∧ awkSubstr true [97, 0xc3, 0xa9, 0xff, 98] (.fin (mkRat 5 2)) = some [0xc3, 0xa9, 0xff, 98] := by decide
example : skipCount 5 (.fin (mkRat 5 2)) = 1 ∧ takeCount 5 (.fin (-3)) = 0 ∧ skipCount 5 (.fin (-3)) = 0 := by decide
example : awkInt (.fin (mkRat (-7) 2)) = .fin (-3) ∧ awkInt (.fin 1000000000000000019884624838656) = .fin 1000000000000000019884624838656 := by decide
example : IsFloat64Value (mkRat (-7) 2) := Or.inr ⟨-7, 1, by decide, by decide, by decide +kernel⟩
example : runes [97, 0xc3, 0xa9, 0xe6, 0x97, 0xa5, 0xff, 0xc3] = [[97], [0xc3, 0xa9], [0xe6, 0x97, 0xa5], [0xff], [0xc3]] := by decide
example : Aligned [97, 0xc3, 0xa9, 98] 1 3 := ⟨1, 1, by decide, by decide, by decide⟩
example : awkMatch true [97, 0xc3, 0xa9, 98] (some (1, 3)) = (2, 1) := by decide
example : MatchesWF [97, 98, 99] 0 [(0, 1), (2, 3)] := by simp [MatchesWF]
example : awkSub [97, 98, 99] [60, 38, 62] true [(0, 1), (2, 3)] = ([60, 97, 62, 98, 60, 99, 62], 2) := by decide
example : awkSub [97, 98, 99] [60, 38, 62] false [(0, 1), (2, 3)] = ([60, 97, 62, 98, 99], 1) := by decide
example : awkSplitLit [97, 44, 98, 44] [44] = [[97], [98], []] := by decide
example : indexOf [97, 98, 99, 98, 99] [98, 99] = some 1 := by decide
example : (compileAll (R := Bytes × Bool) (fun b => some (b, false)) (fun r => (r.1, true)) 1 [] [[97], [98], [97], [98]]).1
    = [some ([40, 63, 115, 58, 97, 41], true), some ([40, 63, 115, 58, 98, 41], true), some ([40, 63, 115, 58, 97, 41], true), some ([40, 63, 115, 58, 98, 41], true)] := by decide
example : tokenize [60, 92, 38, 38, 92, 113, 92, 92, 92] = [.text 60, .escAmp, .amp, .bsOther 113, .escBs, .bsEnd] := by decide
example : expand [120] [60, 92, 38, 38, 92, 113, 92, 92, 92] = [60, 38, 120, 92, 113, 92, 92] := by decide
example : awkSplitRegex [97, 49, 98, 50, 50] [(1, 2), (3, 5)] = [[97], [98], []] ∧ cutTexts [97, 49, 98, 50, 50] [(1, 2), (3, 5)] = [[49], [50, 50]] := by decide
example : awkSplitRegex [97, 98] [(0, 0), (1, 1), (2, 2)] = [[97], [98]] ∧ lastStart 0 [(0, 0), (1, 1), (2, 2)] = 2 := by decide
example : stringsFields [32, 97, 0xC2, 0xA0, 9, 98, 0xff, 32] = [[97], [98, 0xff]] := by decide
example : mapCase asciiUpper id [97, 0xff, 0xe6, 0x97, 0xa5, 122] = [65, 0xEF, 0xBF, 0xBD, 0xe6, 0x97, 0xa5, 90] := by decide
example : splitStore [(.other [120], [49]), (.idx 7, [50])] [[97], [], [98]] = ([(.idx 1, [97]), (.idx 2, []), (.idx 3, [98])], 3) := by decide
example : (RTok.text 120).ok := ⟨by decide, by decide⟩
example : expand [120] ([RTok.amp, .escAmp, .text 45, .escBs].flatMap RTok.render) = [120, 38, 45, 92] := by decide

end GoawkModel.C10.Props
