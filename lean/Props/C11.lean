import Proofs.C11Pins
import Proofs.C11Counts
import Proofs.C11Exit
import Proofs.C11Range
import Proofs.C11Stream
import Proofs.C11Visits
import Proofs.C11OpLog
import Proofs.C11Depth
import Proofs.C11Special
import Proofs.C11Reuse
import Proofs.C11Shape
/-!
# C11 — input bookkeeping: NR, FNR, FILENAME, operands, getline, ranges, next, exit

Property theorems over the main-loop machine `GoawkModel.C11` (model of `executeAll` / `execActions` / `nextLine` and the
getline / next / nextfile / exit opcodes). Quantifiers: every program of the rule language (arbitrary nesting of calls,
loops and conditionals; patterns are arbitrary functions of the record view), every world (ARGV, files, stdin), every fuel.
-/
namespace GoawkModel.C11.Props
open GoawkModel GoawkModel.C11

/-- a fresh interpreter: no record taken, nothing traced, status 0 -/
def Initial (s : St) : Prop :=
  s.nr = 0 ∧ s.iters = 0 ∧ s.gl = 0 ∧ s.glv = 0 ∧ s.out = [] ∧ s.status = 0

/-- **nr_counts.** After any program on any world: NR = (records the main loop took) + (successful plain getlines) +
(successful `getline var`s) — and the same held at the moment of every traced action (`ghost` is the sum of the three
call-site counters then). `getline < file` forms, next, nextfile, exit, ARGV edits contribute nothing. -/
theorem nr_counts (fuel : Nat) (p : Prog) (s : St) (h0 : Initial s) :
    (run fuel p s).2.nr = (run fuel p s).2.iters + (run fuel p s).2.gl + (run fuel p s).2.glv ∧
    ∀ tag nr fnr fn line nf vars ghost, Event.emit tag nr fnr fn line nf vars ghost ∈ (run fuel p s).2.out → nr = ghost := by
  obtain ⟨hnr, hit, hgl, hglv, hout, -⟩ := h0
  have hinv : NrInv s := ⟨by rw [hnr, hit, hgl, hglv], by rw [hout]; intro e he; cases he⟩
  have h := run_preserves nrInv_stable fuel p s hinv
  exact ⟨h.1, fun tag nr fnr fn line nf vars ghost he => h.2 _ he⟩

/-- a fresh interpreter before any input was touched: operand cursor at ARGV[1], no scanner, no input seen -/
def Fresh (s : St) : Prop :=
  s.idx = 1 ∧ s.cur = none ∧ s.hadFiles = false ∧ s.takes = [] ∧ s.edited = false ∧ s.ilog = []

/-- **operands_in_order / fnr_restarts / filename_current.** For every program, world and fuel: as long as the program has not
assigned ARGV / ARGC nor executed nextfile (`edited = false`, a ghost flag those steps set), the records taken from the main
input so far — by the main loop, `getline` and `getline var` in whatever interleaving, oldest first, each with the FILENAME
and FNR it was given — followed by what the input would still deliver, are the declarative stream `streamSpec` of the operand
list: operands left to right, assignments and empty operands deliver nothing, `-` is stdin, each file's records are numbered
from 1 under its own name, and stdin is read once when no operand named an input. -/
theorem operands_in_order (fuel : Nat) (p : Prog) (s : St) (h0 : Fresh s) :
    (run fuel p s).2.edited = false →
    (((run fuel p s).2.takes.map TakeInfo.item).reverse ++ pending (run fuel p s).2 =
      streamSpec s.fs (operandsFrom s.argv 1 (s.argc - 1)) false s.stdin) := by
  obtain ⟨hidx, hcur, hhad, htakes, -, hilog⟩ := h0
  have hinv : StreamInv (streamSpec s.fs (operandsFrom s.argv 1 (s.argc - 1)) false s.stdin) s := by
    intro _
    simp [pending, remaining, hidx, hcur, hhad, htakes]
  exact run_preserves (streamInv_stable _) fuel p s hinv

/-- in particular the records taken are a prefix of the specified stream -/
theorem taken_is_prefix (fuel : Nat) (p : Prog) (s : St) (h0 : Fresh s) (he : (run fuel p s).2.edited = false) :
    ((run fuel p s).2.takes.map TakeInfo.item).reverse <+: streamSpec s.fs (operandsFrom s.argv 1 (s.argc - 1)) false s.stdin :=
  ⟨_, operands_in_order fuel p s h0 he⟩

/-- … and when the main loop ends normally (it read the input to its end) without such edits, the records taken are the
whole stream: every record of every operand was delivered exactly once, in order -/
theorem whole_stream_taken (fuel : Nat) (rules : List Rule) (fl : List Bool) (s s2 : St) (h0 : Fresh s)
    (hm : mainLoop fuel rules fl s = (.normal, s2)) (he : s2.edited = false) :
    (s2.takes.map TakeInfo.item).reverse = streamSpec s.fs (operandsFrom s.argv 1 (s.argc - 1)) false s.stdin := by
  obtain ⟨hidx, hcur, hhad, htakes, -, hilog⟩ := h0
  have hinv : StreamInv (streamSpec s.fs (operandsFrom s.argv 1 (s.argc - 1)) false s.stdin) s := by
    intro _
    simp [pending, remaining, hidx, hcur, hhad, htakes]
  have h1 := mainLoop_preserves (streamInv_stable _) fuel rules fl s hinv
  have h2 := mainLoop_normal_drained fuel rules fl s (by rw [hm])
  rw [hm] at h1 h2
  have h3 := h1 he
  simp only at h2
  rw [h2, List.append_nil] at h3
  exact h3

/-- **var=value operands are assigned at the moment they are reached.** The unified ghost log of operand fetches and record
deliveries, followed by what is still to come, is `logSpec`: the operands left to right, each immediately followed by the
records it delivers. So an operand — in particular an assignment, which the walk applies in the very step that fetches it
(`assign_applied_when_reached`) — is reached after every record of the earlier operands was taken and before any record of the
later ones; an empty operand is fetched and delivers nothing. Same quantifiers and the same `edited = false` proviso. -/
theorem operand_log_spec (fuel : Nat) (p : Prog) (s : St) (h0 : Fresh s) :
    (run fuel p s).2.edited = false →
    (run fuel p s).2.ilog.reverse ++ pendingL (run fuel p s).2 =
      logSpec s.fs (operandsFrom s.argv 1 (s.argc - 1)) false s.stdin := by
  obtain ⟨hidx, hcur, hhad, htakes, -, hilog⟩ := h0
  have hinv : LogInv (logSpec s.fs (operandsFrom s.argv 1 (s.argc - 1)) false s.stdin) s := by
    intro _
    simp [pendingL, remaining, hidx, hcur, hhad, hilog]
  exact run_preserves (logInv_stable _) fuel p s hinv

/-- every step of the walk is one of these: an assignment operand is applied at the moment it is fetched — after the records
of every earlier operand were delivered (the walk is only entered when the scanner is exhausted) and before any later operand
is looked at — and an empty operand is skipped -/
theorem assign_applied_when_reached (n : Nat) (s : St) (name val : Bytes)
    (h : classify (s.argv.getD s.idx []) = .assign name val) :
    openWalk (n + 1) s = openWalk n (s.fetch.2.setVarByName name val) := by
  conv => lhs; unfold openWalk
  simp only [St.fetch, h]

theorem empty_operand_skipped (n : Nat) (s : St) (h : classify (s.argv.getD s.idx []) = .empty) :
    openWalk (n + 1) s = openWalk n s.fetch.2 := by
  conv => lhs; unfold openWalk
  simp only [St.fetch, h]

/-- **getline_var_only.** `getline var` leaves `$0` (hence NF), the exit status and the getline streams alone; on success it
advances NR by one and stores the record in `var` (on top of whatever var=value operands the walk crossed); otherwise NR
stays. -/
theorem getline_var_only (s : St) (v : Nat) :
    (doGetlineVar s v).line = s.line ∧ nfOf (doGetlineVar s v).line = nfOf s.line ∧
    (doGetlineVar s v).status = s.status ∧ (doGetlineVar s v).streams = s.streams ∧
    (match (nextLine s).1 with
     | .got r => (doGetlineVar s v).nr = s.nr + 1 ∧ (doGetlineVar s v).vars = setPad (nextLine s).2.vars v r
     | _ => (doGetlineVar s v).nr = s.nr ∧ (doGetlineVar s v).vars = (nextLine s).2.vars) := by
  have hf := nextLine_frame s
  unfold doGetlineVar
  rcases hn : nextLine s with ⟨t, s1⟩
  rw [hn] at hf
  obtain ⟨-, -, -, -, h5, h6, h7, -, -, -, h11⟩ := hf
  simp only at h5 h6 h7 h11
  cases t <;> simp_all [St.setVar, St.emitEv, Take.delta]

/-- **getline_file_nr.** `getline < file` leaves NR, FNR, FILENAME, the position in the main input (operand cursor, open
scanner, stdin), the variables and the ghost counters alone. -/
theorem getline_file_nr (s : St) (f : Bytes) :
    (doGetlineFile s f).nr = s.nr ∧ (doGetlineFile s f).fnr = s.fnr ∧ (doGetlineFile s f).filename = s.filename ∧
    (doGetlineFile s f).cur = s.cur ∧ (doGetlineFile s f).idx = s.idx ∧ (doGetlineFile s f).stdin = s.stdin ∧
    (doGetlineFile s f).vars = s.vars ∧ (doGetlineFile s f).iters = s.iters := by
  have hf := readStream_fields s f
  unfold doGetlineFile
  rcases hr : readStream s f with ⟨ret, o, s1⟩
  rw [hr] at hf
  cases o <;> simp_all [St.setLine, St.emitEv]

/-- `getline var < file`: additionally `$0` / NF are untouched, and only `var` may change -/
theorem getline_var_file_nr (s : St) (v : Nat) (f : Bytes) :
    (doGetlineVarFile s v f).nr = s.nr ∧ (doGetlineVarFile s v f).fnr = s.fnr ∧
    (doGetlineVarFile s v f).filename = s.filename ∧ (doGetlineVarFile s v f).cur = s.cur ∧
    (doGetlineVarFile s v f).idx = s.idx ∧ (doGetlineVarFile s v f).line = s.line ∧
    ((doGetlineVarFile s v f).vars = s.vars ∨ ∃ r, (doGetlineVarFile s v f).vars = setPad s.vars v r) := by
  have hf := readStream_fields s f
  unfold doGetlineVarFile
  rcases hr : readStream s f with ⟨ret, o, s1⟩
  rw [hr] at hf
  cases o with
  | none => simp_all [St.setVar, St.emitEv]
  | some r =>
    simp_all [St.setVar, St.emitEv]
    exact Or.inr ⟨r, rfl⟩

/-- **range_spec.** The records a range rule selects, among the records that reach it, are exactly those covered by a
segment that starts at a record satisfying the first pattern and has not met a record satisfying the second before
(`Selected`, a positional definition without recursion): from a record matching `b` through the next record matching `e`,
inclusive, possibly the same record. `matchPat` is what `runRules` does for the rule; `rangeRun` iterates it. -/
theorem range_spec (xs : List (Bool × Bool)) (i : Nat) (h : i < xs.length) :
    (rangeRun false xs).getD i false = true ↔
      ∃ j, j ≤ i ∧ (xs.getD j (false, false)).1 = true ∧ ∀ k, j ≤ k → k < i → (xs.getD k (false, false)).2 = false :=
  rangeRun_selected xs i h

/-- **range_spec, in the whole machine.** For every program, world and fuel and every rule position `i`: the decisions taken
at the successive evaluations of rule `i` (ghost log `visits`; a record reaches the rule unless an earlier rule executed
next / nextfile / exit for it, and sees `$0` as earlier rules left it) are exactly the positional definition `Selected` over the
pattern values at those evaluations. -/
theorem range_spec_machine (fuel : Nat) (p : Prog) (s : St) (h0 : s.visits = []) (i k : Nat)
    (hk : k < (history i (run fuel p s).2.visits).length) :
    (((history i (run fuel p s).2.visits).map (·.matched)).getD k false = true ↔
      Selected ((history i (run fuel p s).2.visits).map Visit.be) k) := by
  rw [consistent_history i _ (run_visits fuel p s h0)]
  exact rangeRun_selected _ k (by simpa using hk)

/-- the rule step of the machine is the automaton step (so `range_spec` speaks about `runRules`) -/
theorem range_step_is_machine (b e : View → PRes) (flag : Bool) (v : View) :
    matchPat (.range b e) flag v = rangeStep flag (b v).toBool (e v).toBool := rfl

/-- a range already open stays open until a record satisfies the second pattern, across file boundaries too: the flag
depends on nothing but the previous flag and the two pattern values -/
theorem range_open_general (xs : List (Bool × Bool)) (f : Bool) (i : Nat) (h : i < xs.length) :
    (rangeRun f xs).getD i false = true ↔ (Selected xs i ∨ (f = true ∧ StillOpen xs i)) :=
  rangeRun_spec xs f i h

/-- **next_abandons / nextfile_abandons (unwinding).** A signal raised anywhere in an op list — `next`, `nextfile`, `exit`,
from any depth of calls, loops and conditionals — ends the list: nothing after it runs. -/
theorem unwind_append (os more : List Op) (s : St) (sig : Sig) (s1 : St)
    (h : execOps os s = (sig, s1)) (hs : sig ≠ .normal) : execOps (os ++ more) s = (sig, s1) :=
  execOps_abort os more s sig s1 h hs

/-- a function call passes the signal of its body on unchanged, and the call-depth counter is decremented on every way out -/
theorem unwind_call (body : List Op) (s : St) (h : s.depth < maxCallDepth) :
    execOp (.call body) s = ((execOps body s.enterCall).1, (execOps body s.enterCall).2.leaveCall) := by
  simp only [execOp]
  rw [if_neg (by omega)]

/-- **the call-depth counter is restored by every record, however it ended** (normal, next, nextfile, exit from any depth of
calls, loops, conditionals — or from a pattern): one operation, an operation list, one record through the rule list, the whole
main loop, the whole run. In particular no amount of early exits from functions can exhaust `maxCallDepth`. -/
theorem depth_restored_ops (os : List Op) (s : St) : (execOps os s).2.depth = s.depth := execOps_depth os s

theorem depth_restored_record (i : Nat) (rules : List Rule) (fl : List Bool) (s : St) :
    (runRules i rules fl s).2.2.depth = s.depth := runRules_depth i rules fl s

theorem depth_restored_run (fuel : Nat) (p : Prog) (s : St) : (run fuel p s).2.depth = s.depth := run_depth fuel p s

theorem unwind_loop (n : Nat) (body : List Op) (s : St) (sig : Sig) (s1 : St)
    (h : execOps body s = (sig, s1)) (hs : sig ≠ .normal) : execOp (.loop (n + 1) body) s = (sig, s1) :=
  loop_abort n body s sig s1 h hs

theorem unwind_cond (c : View → Bool) (body : List Op) (s : St) (hc : c s.view = true) :
    execOp (.cond c body) s = execOps body s := by simp [execOp, hc]

/-- at rule level: when the body of a matching rule raises a signal, the later rules are not visited for this record —
their range flags are untouched and the state is the one the signal left -/
theorem next_abandons_rules (r : Rule) (rs : List Rule) (f : Bool) (fl : List Bool) (s s1 : St) (ops : List Op) (sig : Sig)
    (i : Nat) (hp : patSignal r.pat f s.view = none) (hm : (matchPat r.pat f s.view).1 = true) (hb : r.body = some ops)
    (h : execOps ops (s.logVisit i r.pat f) = (sig, s1)) (hs : sig ≠ .normal) :
    runRules i (r :: rs) (f :: fl) s = (sig, (matchPat r.pat f s.view).2 :: fl, s1) := by
  unfold runRules
  simp only [hp, hm, hb, h]
  cases sig <;> first | rfl | exact absurd rfl hs

/-- **next / nextfile from a function called in a PATTERN** (the repaired Gc11-1): the only signals a pattern can raise are
next and nextfile … -/
theorem pattern_raises_next_or_nextfile (p : Pat) (f : Bool) (v : View) (sg : Sig) (h : patSignal p f v = some sg) :
    sg = .next ∨ sg = .nextfile := by
  have key : ∀ r : PRes, r.sig? = some sg → sg = .next ∨ sg = .nextfile := by
    intro r hr
    cases r <;> simp [PRes.sig?] at hr
    · exact Or.inl hr.symm
    · exact Or.inr hr.symm
  cases p with
  | always => simp [patSignal] at h
  | pred c => exact key _ h
  | range b e =>
    simp only [patSignal] at h
    split at h
    · exact key _ h
    · split at h
      · rename_i sg' hb
        cases h
        exact key _ hb
      · split at h
        · exact key _ h
        · cases h

/-- … and when one is raised the record is abandoned right there: the rule's action does not run, no later rule is visited
(their flags are untouched), nothing is printed, `$0` is untouched; the main loop then proceeds as for a next / nextfile
statement in an action (`next_continues`, `nextfile_continues`). -/
theorem next_from_pattern_abandons (i : Nat) (r : Rule) (rs : List Rule) (f : Bool) (fl : List Bool) (s : St) (sg : Sig)
    (h : patSignal r.pat f s.view = some sg) :
    (runRules i (r :: rs) (f :: fl) s).1 = sg ∧ (runRules i (r :: rs) (f :: fl) s).2.1.tail = fl ∧
    (runRules i (r :: rs) (f :: fl) s).2.2.out = s.out ∧ (runRules i (r :: rs) (f :: fl) s).2.2.line = s.line ∧
    (runRules i (r :: rs) (f :: fl) s).2.2.nr = s.nr := by
  unfold runRules
  simp only [h]
  split
  · exact ⟨rfl, rfl, rfl, rfl, rfl⟩
  · refine ⟨rfl, rfl, ?_, ?_, ?_⟩ <;> (unfold St.logVisit; split <;> rfl)

/-- for a single-pattern rule: the flag is untouched as well and the state is exactly the one before -/
theorem next_from_pred_pattern (i : Nat) (c : View → PRes) (body : Option (List Op)) (rs : List Rule) (f : Bool)
    (fl : List Bool) (s : St) (h : c s.view = .next) :
    runRules i (⟨.pred c, body⟩ :: rs) (f :: fl) s = (.next, f :: fl, s) := by
  unfold runRules
  simp [patSignal, beginRaises, matchPat, St.logVisit, h, PRes.sig?]

/-- at main-loop level: `next` goes straight to the next record; `nextfile` drops the scanner first, so that the next
record comes from the operand walk (the rest of the current file is never delivered) -/
theorem next_continues (fuel : Nat) (rules : List Rule) (fl fl' : List Bool) (s s1 s3 : St) (r : Rec)
    (hn : nextLine s = (.got r, s1)) (hr : runRules 0 rules fl (s1.beginRecord r) = (.next, fl', s3)) :
    mainLoop (fuel + 1) rules fl s = mainLoop fuel rules fl' s3 := by
  simp [mainLoop, hn, hr]

theorem nextfile_continues (fuel : Nat) (rules : List Rule) (fl fl' : List Bool) (s s1 s3 : St) (r : Rec)
    (hn : nextLine s = (.got r, s1)) (hr : runRules 0 rules fl (s1.beginRecord r) = (.nextfile, fl', s3)) :
    mainLoop (fuel + 1) rules fl s = mainLoop fuel rules fl' s3.dropScanner ∧
    nextLine s3.dropScanner = openWalk (s3.argc - s3.idx) s3.dropScanner := by
  refine ⟨by simp [mainLoop, hn, hr], ?_⟩
  simp [nextLine, St.dropScanner]

/-- **exit_runs_end.** `exit` in the main loop stops reading (the loop returns at once with the state the exit left) … -/
theorem exit_stops_reading (fuel : Nat) (rules : List Rule) (fl fl' : List Bool) (s s1 s3 : St) (r : Rec)
    (hn : nextLine s = (.got r, s1)) (hr : runRules 0 rules fl (s1.beginRecord r) = (.exit, fl', s3)) :
    mainLoop (fuel + 1) rules fl s = (.exit, s3) := by
  simp [mainLoop, hn, hr]

/-- … and END still runs, on exactly that state: its `$0` (hence NF) is the one of the moment of the exit, i.e. of the last
record. -/
theorem exit_runs_end (fuel : Nat) (p : Prog) (s s1 s2 : St) (hb : execOps p.begin s = (.normal, s1))
    (hne : (p.rules.isEmpty && p.end_.isNone) = false)
    (hm : mainLoop fuel p.rules (p.rules.map fun _ => false) s1 = (.exit, s2)) :
    (run fuel p s).2 = (execOps (p.end_.getD []) s2).2 := by
  have hmp : mainPhase fuel p .normal s1 = (.exit, s2) := by simp [mainPhase, hm]
  simp [run, hb, hne, hmp, endPhase_snd]

/-- `exit` in BEGIN skips the main loop altogether (no record is read: END starts from the state BEGIN left) -/
theorem exit_in_begin_runs_end (fuel : Nat) (p : Prog) (s s1 : St) (hb : execOps p.begin s = (.exit, s1))
    (hne : (p.rules.isEmpty && p.end_.isNone) = false) :
    (run fuel p s).2 = (execOps (p.end_.getD []) s1).2 := by
  have hmp : mainPhase fuel p .exit s1 = (.exit, s1) := by simp [mainPhase]
  simp [run, hb, hne, hmp, endPhase_snd]

/-- **exit_status.** The exit status of any run is the value of the last `exit n` executed (`exit` without a value keeps
it; 0 when there was none). -/
theorem exit_status (fuel : Nat) (p : Prog) (s : St) (h0 : Initial s) :
    (run fuel p s).2.status = lastExit (run fuel p s).2.out := by
  obtain ⟨-, -, -, -, hout, hst⟩ := h0
  have hinv : StatusInv s := by unfold StatusInv; rw [hst, hout]; rfl
  exact run_preserves statusInv_stable fuel p s hinv

/-! ## special variables written by operands, `-v` and the program: FILENAME never steers the input, FS is fixed per record -/

/-- the operand walk has not started; FILENAME, FS and everything AWK-visible may hold anything (`-v FILENAME=…`, BEGIN) -/
def FreshWalk (s : St) : Prop :=
  s.idx = 1 ∧ s.cur = none ∧ s.hadFiles = false ∧ s.takes = [] ∧ s.walkEdited = false

/-- **filename_never_steers_input.** For every program — including programs that assign FILENAME anywhere (`Op.setFilename`) —
every operand list — including `FILENAME=x` operands — every initial FILENAME (`-v`), world and fuel: as long as the program has
not assigned ARGV / ARGC nor executed nextfile, the records taken from the main input (with their FNR; by the main loop, getline
and getline var in any interleaving) followed by what is pending are the declarative stream of the operand list. Which inputs
are read, in which order, and whether stdin is the default input depends on the operand list only. -/
theorem filename_never_steers_input (fuel : Nat) (p : Prog) (s : St) (h0 : FreshWalk s) :
    (run fuel p s).2.walkEdited = false →
    (takes2 (run fuel p s).2).reverse ++ pending2 (run fuel p s).2 =
      (streamSpec s.fs (operandsFrom s.argv 1 (s.argc - 1)) false s.stdin).map dropName := by
  obtain ⟨hidx, hcur, hhad, htakes, -⟩ := h0
  have hinv : RecInv ((streamSpec s.fs (operandsFrom s.argv 1 (s.argc - 1)) false s.stdin).map dropName) s := by
    intro _
    simp [takes2, pending2, pending, remaining, hidx, hcur, hhad, htakes]
  exact run_preserves (recInv_stable _) fuel p s hinv

/-- … in particular, when no operand names an input (only assignments — `FILENAME=x` among them — and empty strings, or no
operand at all), that stream is stdin: the fallback is decided by the operand list, not by FILENAME being unset. -/
theorem stdin_is_default_input (fuel : Nat) (p : Prog) (s : St) (h0 : FreshWalk s)
    (hops : ∀ o ∈ operandsFrom s.argv 1 (s.argc - 1), namesNoInput o = true) :
    (run fuel p s).2.walkEdited = false →
    (takes2 (run fuel p s).2).reverse ++ pending2 (run fuel p s).2 = (numbered [45] 0 s.stdin).map dropName := by
  intro he
  rw [filename_never_steers_input fuel p s h0 he, streamSpec_no_input s.fs _ s.stdin hops]

/-- **a record is split with the FS in force when it is set** (`savedFieldSep`): by the main loop and by plain getline … -/
theorem record_split_with_fs_at_read_time (s : St) (r : Rec) :
    (s.beginRecord r).nf = nfWith s.fsep r ∧ (s.setLine r).nf = nfWith s.fsep r := ⟨rfl, rfl⟩

/-- … and an assignment to FS afterwards — by the program, or by a `FS=…` operand — leaves `$0` and NF of the current record
alone; `getline var` does not re-split either. -/
theorem fs_assignment_keeps_record (s : St) (v : Bytes) :
    (execOp (.setFs v) s).2.line = s.line ∧ (execOp (.setFs v) s).2.nf = s.nf ∧
    (s.setVarByName fsVar v).line = s.line ∧ (s.setVarByName fsVar v).nf = s.nf ∧
    (s.setVarByName fsVar v).fsep = v ∧ (execOp (.setFs v) s).2.fsep = v := by
  refine ⟨rfl, rfl, ?_, ?_, ?_, rfl⟩ <;> simp [St.setVarByName, fsVar, fileNameVar, St.nf]

/-- **looking for the next record never changes the current one**: whatever `nextLine` finds — a record (which the caller
then installs), the end of the input, a missing file — and whatever `var=value` operands (FS, FILENAME, …) it applies on the
way, `$0` and the FS saved with it, hence NF, are untouched. With `mainLoop` ending at `.eof` this is: END's `$0` and NF are
those of the last record, also when assignment operands follow the last file. -/
theorem next_line_keeps_record (s : St) : (nextLine s).2.line = s.line ∧ (nextLine s).2.nf = s.nf := by
  obtain ⟨-, h2, h3⟩ := nextLine_frame2 s
  exact ⟨h3, by unfold St.nf; rw [h2, h3]⟩

theorem end_sees_last_record (fuel : Nat) (rules : List Rule) (fl : List Bool) (s s1 : St) (hn : nextLine s = (.eof, s1)) :
    mainLoop (fuel + 1) rules fl s = (.normal, s1) ∧ s1.line = s.line ∧ s1.nf = s.nf := by
  have h := next_line_keeps_record s
  rw [hn] at h
  exact ⟨by simp [mainLoop, hn], h.1, h.2⟩

theorem getline_var_keeps_nf (s : St) (v : Nat) : (doGetlineVar s v).nf = s.nf := by
  have h := next_line_keeps_record s
  unfold doGetlineVar
  rcases hn : nextLine s with ⟨t, s1⟩
  rw [hn] at h
  cases t <;> exact h.2

/-! ## histories: ONE interpreter, several executions (`interp.New` once, `Execute` / `ExecuteContext` repeatedly)

`runAll` threads the machine state through the executions: `resetCore` and `setExecuteConfig` run on whatever the previous
execution left. The property's quantifier ranges over histories; these theorems move every statement above to every
execution of every history. -/

/-- **history_is_fresh_runs.** The flat specification of a sequence of executions on one interpreter is, execution by
execution, the flat specification of that execution from the INITIAL bookkeeping state (`freshStart`: NR = FNR = 0, no
FILENAME, empty `$0`, operand cursor at ARGV[1], no input seen, no scanner, no getline stream, exit status 0, call depth 0 — and
all range flags clear, which `run` sets up itself). Of the state `s` the earlier executions left, only the variables are
visible (`carried s e`: global scalars, FS, ARGV beyond the new operands; nothing after `ResetVars`). For every program, every
previous state, every list of executions. -/
theorem history_is_fresh_runs (fuel : Nat) (p : Prog) (s : St) (e : Exec) (es : List Exec) :
    runAll fuel p s (e :: es) =
      run fuel p (freshStart s.varNames e (carried s e)) ::
        runAll fuel p (run fuel p (freshStart s.varNames e (carried s e))).2 es ∧
    s.startNext e = freshStart s.varNames e (carried s e) :=
  ⟨runAll_cons fuel p s e es, startNext_eq_freshStart s e⟩

/-- … in closed form when every execution is preceded by `ResetVars`: the history is the list of the standalone runs -/
theorem history_with_resetVars (fuel : Nat) (p : Prog) (s : St) (es : List Exec) (h : ∀ e ∈ es, e.resetVars = true) :
    runAll fuel p s es = es.map fun e => run fuel p (freshStart s.varNames e {}) :=
  runAll_resetVars fuel p es s h

/-- **execution_starts_afresh.** The state in which any execution starts satisfies every initial-state hypothesis used by
the theorems of this file (whatever variables are carried and whatever `Config.Vars` assign), `$0` is empty with NF = 0, and
its operands are exactly the new operand list. -/
theorem execution_starts_afresh (names : List Bytes) (e : Exec) (c : Carried) :
    Initial (freshStart names e c) ∧ Fresh (freshStart names e c) ∧ FreshWalk (freshStart names e c) ∧
    (freshStart names e c).visits = [] ∧ (freshStart names e c).depth = 0 ∧ (freshStart names e c).fnr = 0 ∧
    (freshStart names e c).line = [] ∧ (freshStart names e c).nf = 0 ∧ (freshStart names e c).streams = [] ∧
    operandsFrom (freshStart names e c).argv 1 ((freshStart names e c).argc - 1) = e.args := by
  obtain ⟨h1, h2, h3, h4, h5, h6, h7, h8, h9, h10, h11, h12, h13, h14, h15, h16, h17, h18, -, -, -, -⟩ := freshStart_fields names e c
  exact ⟨⟨h1, h3, h4, h5, h6, h7⟩, ⟨h8, h9, h10, h11, h12, h14⟩, ⟨h8, h9, h10, h11, h13⟩, h15, h16, h2, h17,
    freshStart_nf names e c, h18, freshStart_operands names e c⟩

/-- **every_execution (NR, exit status, ranges, operands).** In every history, for the `i`-th execution `e` and its result `r`:
NR counts the records taken in THIS execution; the exit status is the last exit value of THIS execution (0 when it executed
none); each range rule selects by the positional definition over the records that reached it in THIS execution (a range left
open by an earlier execution is not open now); and — while the program has not edited ARGV / ARGC nor executed nextfile — the
records taken plus those pending are the declarative stream of THIS execution's operand list over its own files and stdin
(operand cursor, had-files decision and stdin fallback start anew). -/
theorem every_execution (fuel : Nat) (p : Prog) (s : St) (es : List Exec) (i : Nat) (r : Bool × St) (e : Exec)
    (hr : (runAll fuel p s es)[i]? = some r) (he : es[i]? = some e) :
    (r.2.nr = r.2.iters + r.2.gl + r.2.glv ∧
      ∀ tag nr fnr fn line nf vars ghost, Event.emit tag nr fnr fn line nf vars ghost ∈ r.2.out → nr = ghost) ∧
    r.2.status = lastExit r.2.out ∧
    (∀ j k, k < (history j r.2.visits).length →
      (((history j r.2.visits).map (·.matched)).getD k false = true ↔ Selected ((history j r.2.visits).map Visit.be) k)) ∧
    (r.2.walkEdited = false →
      (takes2 r.2).reverse ++ pending2 r.2 = (streamSpec e.fs e.args false e.stdin).map dropName) := by
  obtain ⟨names, c, rfl⟩ := runAll_get fuel p es s i r e hr he
  obtain ⟨hI, -, hW, hV, -, -, -, -, -, hops⟩ := execution_starts_afresh names e c
  obtain ⟨-, -, -, -, -, -, -, -, -, -, -, -, -, -, -, -, -, -, hfs, -, -, hstdin⟩ := freshStart_fields names e c
  refine ⟨nr_counts fuel p _ hI, exit_status fuel p _ hI, fun j k hk => range_spec_machine fuel p _ hV j k hk, ?_⟩
  intro hed
  have h := filename_never_steers_input fuel p _ hW hed
  rw [hops, hfs, hstdin] at h
  exact h

/-! ## program shape (which blocks and rules the program has) and reading resumed after the main loop was left -/

/-- **idle_rules_invisible.** Pattern-action rules that do nothing for any record — `{ }`, or a pattern that is never true,
whatever its action — change nothing: for every BEGIN, END, world and fuel the run of the program with such rules IS the run of
the program without any rule (same trace, same NR / FNR / FILENAME / `$0` / NF in END, same exit status, same input position). So
what END observes does not depend on whether any rule looked at the records; an END-only program is not a special case. -/
theorem idle_rules_invisible (fuel : Nat) (b e : List Op) (rules : List Rule) (s : St) (hi : ∀ r ∈ rules, r.Idle) :
    run fuel ⟨b, rules, some e⟩ s = run fuel ⟨b, [], some e⟩ s :=
  run_idle fuel b e rules s hi

/-- **end_sees_last_record_as_read.** For every program whose rules are all idle (in particular: no rule at all), every world
and fuel: when the main loop has read the input to its end, either it took no record (the look for a first one found the end:
`$0` / NF are what BEGIN left), or END's `$0` is the LAST record taken and its NF is that record split with the FS that was in
force right after it was taken — the `var=value` operands crossed on the way to the end of the input (those after the last file)
are applied, but do not re-split it. -/
theorem end_sees_last_record_as_read (fuel : Nat) (rules : List Rule) (s s2 : St) (hi : ∀ r ∈ rules, r.Idle)
    (h : mainLoop fuel rules (rules.map fun _ => false) s = (.normal, s2)) :
    nextLine s = (.eof, s2) ∨
    ∃ s' s1 r, nextLine s' = (.got r, s1) ∧ nextLine (s1.beginRecord r) = (.eof, s2) ∧ s2.line = r ∧ s2.nf = nfWith s1.fsep r :=
  idle_rules_last_record fuel rules s s2 hi h

/-- **reading_resumes_after_exit.** For every program, world and fuel: when a rule executes `exit` (at any record of any file, at
any depth of calls), the records taken so far followed by what the main input still holds are the whole declarative stream of the
operand list — `exit` drops nothing and closes nothing; and from that state (END runs on exactly it: `exit_runs_end`) an
un-redirected `getline` / `getline var` takes the head of what is pending, under its FILENAME and with its FNR, returns 0 only
when nothing is pending, and a missing file (-1) loses no record. (While the program has not edited ARGV / ARGC nor executed
nextfile.) -/
theorem reading_resumes_after_exit (fuel : Nat) (p : Prog) (s s1 s2 : St) (sigB : Sig) (h0 : Fresh s)
    (hb : execOps p.begin s = (sigB, s1))
    (hm : mainLoop fuel p.rules (p.rules.map fun _ => false) s1 = (.exit, s2)) (he : s2.edited = false) :
    (s2.takes.map TakeInfo.item).reverse ++ pending s2 = streamSpec s.fs (operandsFrom s.argv 1 (s.argc - 1)) false s.stdin ∧
    (match (nextLine s2).1 with
     | .got r => pending s2 = ((nextLine s2).2.filename, (nextLine s2).2.fnr, r) :: pending (nextLine s2).2
     | .eof => pending s2 = []
     | .err => pending s2 = pending (nextLine s2).2) := by
  obtain ⟨hidx, hcur, hhad, htakes, -, hilog⟩ := h0
  have hinv : StreamInv (streamSpec s.fs (operandsFrom s.argv 1 (s.argc - 1)) false s.stdin) s := by
    intro _
    simp [pending, remaining, hidx, hcur, hhad, htakes]
  have h1 := execOps_preserves (streamInv_stable _).toStableOps p.begin s hinv
  rw [hb] at h1
  exact ⟨pending_after_exit _ fuel p.rules _ s1 s2 h1 hm he, next_take_is_head_of_pending s2⟩

/-- … and when BEGIN itself executes `exit` — after any number of getlines —, the main loop is skipped
(`exit_in_begin_runs_end`) and END's getlines continue where BEGIN's stopped -/
theorem reading_resumes_after_exit_in_begin (p : Prog) (s s1 : St) (h0 : Fresh s)
    (hb : execOps p.begin s = (.exit, s1)) (he : s1.edited = false) :
    (s1.takes.map TakeInfo.item).reverse ++ pending s1 = streamSpec s.fs (operandsFrom s.argv 1 (s.argc - 1)) false s.stdin ∧
    (match (nextLine s1).1 with
     | .got r => pending s1 = ((nextLine s1).2.filename, (nextLine s1).2.fnr, r) :: pending (nextLine s1).2
     | .eof => pending s1 = []
     | .err => pending s1 = pending (nextLine s1).2) := by
  obtain ⟨hidx, hcur, hhad, htakes, -, hilog⟩ := h0
  have hinv : StreamInv (streamSpec s.fs (operandsFrom s.argv 1 (s.argc - 1)) false s.stdin) s := by
    intro _
    simp [pending, remaining, hidx, hcur, hhad, htakes]
  exact ⟨pending_after_exit_in_begin _ p.begin s s1 hinv hb he, next_take_is_head_of_pending s1⟩

/-! ## non-vacuity -/

private def w0 : St :=
  { fs := [([107, 49], [[112], [113]]), ([107, 50], [[97], [98], [99]])], stdin := [], argv := [[], [107, 49], [118, 48, 61, 55], [107, 50]],
    argc := 4, varNames := [[118, 48]] }

example : Initial w0 := ⟨rfl, rfl, rfl, rfl, rfl, rfl⟩
example : Fresh w0 := ⟨rfl, rfl, rfl, rfl, rfl, rfl⟩

/-- the specified stream of `w0`: k1's two records, then (after the assignment operand) k2's three, FNR restarting -/
example : streamSpec w0.fs (operandsFrom w0.argv 1 (w0.argc - 1)) false w0.stdin =
    [([107, 49], 1, [112]), ([107, 49], 2, [113]), ([107, 50], 1, [97]), ([107, 50], 2, [98]), ([107, 50], 3, [99])] := by
  decide +kernel

/-- the unified log of `w0`: the assignment operand sits between the last record of k1 and the first of k2 -/
example : logSpec w0.fs (operandsFrom w0.argv 1 (w0.argc - 1)) false w0.stdin =
    [.op [107, 49], .record [107, 49] 1 [112], .record [107, 49] 2 [113], .op [118, 48, 61, 55], .op [107, 50],
     .record [107, 50] 1 [97], .record [107, 50] 2 [98], .record [107, 50] 3 [99]] := by
  decide +kernel

/-- no file operand: stdin, once; `-` twice: the second delivers nothing; empty operands are skipped -/
example : streamSpec [] [[118, 61, 49], []] false [[120], [121]] = [([45], 1, [120]), ([45], 2, [121])] := by decide +kernel
example : streamSpec [] [[45], [], [45]] false [[120]] = [([45], 1, [120])] := by decide +kernel

/-- two files with an assignment operand between them, a rule that traces every record: NR 1..5, FNR restarts, the
assignment shows from the second file on -/
example : ((run 100 ⟨[], [⟨.always, some [.emit 0]⟩], none⟩ w0).2.out.reverse.map fun
      | .emit _ nr fnr fn _ _ vars _ => (nr, fnr, fn, vars)
      | _ => (0, 0, [], [])) =
    [(1, 1, [107, 49], []), (2, 2, [107, 49], []), (3, 1, [107, 50], [[55]]), (4, 2, [107, 50], [[55]]), (5, 3, [107, 50], [[55]])] := by
  decide +kernel

/-- next from inside a call inside a loop abandons the record; exit 3 inside a function still runs END with the last `$0` -/
example : ((run 100 ⟨[], [⟨.pred (fun v => .val (v.nr == 2)), some [.loop 2 [.call [.next, .emit 1]], .emit 2]⟩,
                          ⟨.pred (fun v => .val (v.nr == 4)), some [.call [.exit (some 3)], .emit 3]⟩,
                          ⟨.always, some [.emit 0]⟩], some [.emit 9]⟩ w0).2.out.reverse.map fun
      | .emit tag nr _ _ line _ _ _ => (tag, nr, line)
      | .ctl k _ => (100 + k, 0, [])
      | _ => (0, 0, [])) =
    [(0, 1, [112]), (101, 0, []), (0, 3, [97]), (103, 0, []), (9, 4, [98])] ∧
    (run 100 ⟨[], [⟨.pred (fun v => .val (v.nr == 4)), some [.call [.exit (some 3)]]⟩], some [.emit 9]⟩ w0).2.status = 3 := by
  decide +kernel

/-- a range rule behind a rule that executes `next` on record 3: the range rule is visited for records 1, 2, 4, 5 only;
it opens on record 2 (`q`), is not closed by record 3 (never seen) and closes on record 4 (`b`) -/
example : (history 1 (run 100 ⟨[], [⟨.pred (fun v => .val (v.nr == 3)), some [.next]⟩,
                                      ⟨.range (fun v => .val (v.line == [113])) (fun v => .val (v.line == [98] || v.line == [97])), some [.emit 1]⟩], none⟩
      w0).2.visits).map (fun v => (v.b, v.e, v.matched)) =
    [(false, false, false), (true, false, true), (false, true, true), (false, false, false)] := by
  decide +kernel

/-- the witness of the repaired Gc11-1 on the machine: a pattern whose function executes `next` on records 2 and 3 and
`nextfile` never; records 1, 4, 5 are printed, END sees NR = 5 -/
example : ((run 100 ⟨[], [⟨.pred (fun v => if v.nr == 2 || v.nr == 3 then .next else .val true), some [.emit 1]⟩], some [.emit 9]⟩
      w0).2.out.reverse.map fun
      | .emit tag nr _ _ _ _ _ _ => (tag, nr)
      | _ => (0, 0)) = [(1, 1), (1, 4), (1, 5), (9, 5)] := by
  decide +kernel

/-- `FILENAME=zz` as the only operand, FILENAME also assigned in BEGIN: stdin is still read (two records, FNR 1 and 2), under
the name `-` -/
private def w1 : St :=
  { fs := [], stdin := [[120], [121, 58, 122]], argv := [[], [70, 73, 76, 69, 78, 65, 77, 69, 61, 122, 122]], argc := 2, varNames := [],
    filename := [112, 114, 101] }

example : FreshWalk w1 := ⟨rfl, rfl, rfl, rfl, rfl⟩
example : ∀ o ∈ operandsFrom w1.argv 1 (w1.argc - 1), namesNoInput o = true := by decide +kernel

example : ((run 100 ⟨[.setFilename [113], .emit 8], [⟨.always, some [.emit 0]⟩], some [.emit 9]⟩ w1).2.out.reverse.map fun
      | .emit tag nr fnr fn _ _ _ _ => (tag, nr, fnr, fn)
      | _ => (0, 0, 0, [])) =
    [(8, 0, 0, [113]), (0, 1, 1, [45]), (0, 2, 2, [45]), (9, 2, 2, [45])] := by
  decide +kernel

/-- `FS=:` between two readings of stdin's worth of records: the record read before keeps NF 1, the one after has NF 2;
END (after a trailing `FS=y`) still sees NF 2 -/
private def w2 : St :=
  { fs := [([107], [[121, 58, 122]])], stdin := [], argv := [[], [107], [70, 83, 61, 58], [107], [70, 83, 61, 121]], argc := 5, varNames := [] }

example : ((run 100 ⟨[], [⟨.always, some [.emit 0]⟩], some [.emit 9]⟩ w2).2.out.reverse.map fun
      | .emit tag nr _ _ _ nf _ _ => (tag, nr, nf)
      | _ => (0, 0, 0)) = [(0, 1, 1), (0, 2, 2), (9, 2, 2)] := by
  decide +kernel

/-- idle rules exist: `{ }` and a never-true pattern with an action -/
example : ∀ r ∈ [(⟨.always, some []⟩ : Rule), ⟨.pred (fun _ => .val false), some [.emit 1, .next]⟩], r.Idle := by
  intro r hr
  simp only [List.mem_cons, List.mem_nil_iff, or_false] at hr
  rcases hr with rfl | rfl
  · exact Or.inl ⟨rfl, rfl⟩
  · exact Or.inr ⟨_, rfl, fun _ => rfl⟩

/-- the END-only program over `w4` (`k FS=:`, k holds the one record `y:z`, read under the default FS): END sees NR 1,
`$0` = `y:z` and NF 1 — the record as it was read, not re-split by the trailing `FS=:` although that operand HAS been applied
when END runs (`fsep` is `:`; re-splitting would give NF 2) — and the same program with two idle rules is the same run -/
private def w4 : St :=
  { fs := [([107], [[121, 58, 122]])], stdin := [], argv := [[], [107], [70, 83, 61, 58]], argc := 3, varNames := [] }

example : ((run 100 ⟨[], [], some [.emit 9]⟩ w4).2.out.reverse.map fun
      | .emit tag nr _ _ line nf _ _ => (tag, nr, line, nf)
      | _ => (0, 0, [], 0)) = [(9, 1, [121, 58, 122], 1)] ∧
    (run 100 ⟨[], [], some [.emit 9]⟩ w4).2.fsep = [58] ∧
    run 100 ⟨[], [⟨.always, some []⟩, ⟨.pred (fun _ => .val false), some [.emit 1]⟩], some [.emit 9]⟩ w4 =
      run 100 ⟨[], [], some [.emit 9]⟩ w4 := by
  refine ⟨by decide +kernel, by decide +kernel, ?_⟩
  apply idle_rules_invisible
  intro r hr
  simp only [List.mem_cons, List.mem_nil_iff, or_false] at hr
  rcases hr with rfl | rfl
  · exact Or.inl ⟨rfl, rfl⟩
  · exact Or.inr ⟨_, rfl, fun _ => rfl⟩

/-- the hypotheses of `end_sees_last_record_as_read` are satisfiable, and its second alternative is the one that holds on `w4` -/
example : (mainLoop 100 [] [] w4).1 = .normal ∧ (mainLoop 100 [] [] w4).2.line = [121, 58, 122] ∧ (mainLoop 100 [] [] w4).2.nf = 1 ∧
    nfWith (mainLoop 100 [] [] w4).2.fsep (mainLoop 100 [] [] w4).2.line = 2 := by decide +kernel

/-- `exit` at the first record of `w0` (k1 = `p`, `q`; `v0=7`; k2 = `a`, `b`, `c`); END reads on: `getline` gets `q` as record 2
of k1 (FNR 2), `getline var` gets `a` as record 1 of k2 (NR 3, FNR 1, `v0=7` crossed and then overwritten by the record) -/
example : (mainLoop 100 [⟨.pred (fun v => .val (v.nr == 1)), some [.call [.exit (some 2)]]⟩] [false] w0).1 = .exit := by decide +kernel

example : ((run 100 ⟨[], [⟨.pred (fun v => .val (v.nr == 1)), some [.call [.exit (some 2)]]⟩],
      some [.emit 9, .getline, .emit 9, .getlineVar 0, .emit 9]⟩ w0).2.out.reverse.filterMap fun
      | .emit _ nr fnr fn line _ vars _ => some ((nr, fnr, fn), line, vars)
      | _ => none) =
    [((1, 1, [107, 49]), [112], []), ((2, 2, [107, 49]), [113], []), ((3, 1, [107, 50]), [113], [[97]])] ∧
    (run 100 ⟨[], [⟨.pred (fun v => .val (v.nr == 1)), some [.call [.exit (some 2)]]⟩],
      some [.emit 9, .getline, .emit 9, .getlineVar 0, .emit 9]⟩ w0).2.status = 2 :=
  ⟨by decide +kernel, by decide +kernel⟩

/-- `exit` in BEGIN after one getline; END's getline continues with the second record of k1 -/
example : (execOps [.getline, .exit none] w0).1 = .exit ∧
    ((run 100 ⟨[.getline, .exit none], [⟨.always, some [.emit 0]⟩], some [.getline, .emit 9]⟩ w0).2.out.reverse.filterMap fun
      | .emit tag nr fnr fn line _ _ _ => some (tag, nr, fnr, fn, line)
      | _ => none) = ([(9, 2, 2, [107, 49], [113])] : List (Nat × Nat × Nat × Bytes × Bytes)) :=
  ⟨by decide +kernel, by decide +kernel⟩

/-- a range that opens and closes on the same record, and one that stays open -/
example : rangeRun false [(true, true), (false, false), (true, false), (false, false), (false, true), (false, false)] =
    [true, false, true, true, true, false] := by decide

example : Selected [(true, true), (false, false), (true, false), (false, false), (false, true), (false, false)] 4 :=
  ⟨2, by decide, by decide, by
    intro k h1 h2
    have : k = 2 ∨ k = 3 := by omega
    rcases this with rfl | rfl <;> decide⟩

/-- a history of three executions on one interpreter. The program: a range rule `/q/,/z/` (emit 1) and `/q/ { exit 3 }`.
Execution 1 reads k1 (`p`, `q`): the range opens on record 2 and the run exits with status 3 in the middle of the operand list,
NR = 2, `$0` = `q`. Execution 2 (after `ResetVars`) reads k2 (`a`, `b`, `c`): NO record is selected although the range was open
— the result is the standalone run, status 0. Execution 3 has no operand: stdin (`x`, `q`) is read although execution 1 had
file operands; the range opens on ITS `q`. … -/
private def hp : Prog :=
  ⟨[], [⟨.range (fun v => .val (v.line == [113])) (fun v => .val (v.line == [122])), some [.emit 1]⟩,
        ⟨.pred (fun v => .val (v.line == [113])), some [.exit (some 3)]⟩], some [.emit 9]⟩

private def he1 : Exec := { fs := w0.fs, stdin := [], args := [[107, 49], [118, 48, 61, 55], [107, 50]], resetVars := true }
private def he2 : Exec := { fs := w0.fs, stdin := [[113]], args := [[107, 50]], resetVars := true }
private def he3 : Exec := { fs := w0.fs, stdin := [[120], [113]], args := [], resetVars := true }

/-- (1000, exit status, 1 = no error) followed by the traced actions (tag, NR, FNR, FILENAME, `$0`) -/
private def showRun (r : Bool × St) : List (Nat × Nat × Nat × Bytes × Bytes) :=
  (1000, r.2.status, (if r.1 then 1 else 0), [], []) :: r.2.out.reverse.filterMap fun
    | .emit tag nr fnr fn line _ _ _ => some (tag, nr, fnr, fn, line)
    | _ => none

example : (runAll 100 hp w0 [he1, he2, he3]).flatMap showRun =
    [(1000, 3, 1, [], []), (1, 2, 2, [107, 49], [113]), (9, 2, 2, [107, 49], [113]),
     (1000, 0, 1, [], []), (9, 3, 3, [107, 50], [99]),
     (1000, 3, 1, [], []), (1, 2, 2, [45], [113]), (9, 2, 2, [45], [113])] := by
  decide +kernel

/-- … and equals, element by element, the standalone runs (`history_with_resetVars` is not vacuous) -/
example : ∀ e ∈ [he1, he2, he3], e.resetVars = true := by decide
example : (runAll 100 hp w0 [he1, he2, he3]).flatMap showRun =
    [he1, he2, he3].flatMap fun e => showRun (run 100 hp (freshStart w0.varNames e {})) := by
  decide +kernel

/-- without `ResetVars` the variable assigned by the operand `v0=7` of an earlier execution is still there — and nothing else -/
example : (carried (run 100 ⟨[], [⟨.always, some [.emit 0]⟩], none⟩ (w0.startNext he1)).2 { he2 with resetVars := false }).vars = [[55]] := by
  decide +kernel

end GoawkModel.C11.Props

/-! ## Pinned source text (regenerated tie; extract/pins.go, tools/repin.py)
An edit of one of these functions in /repo breaks the matching obligation: the model below was written from the text
in `Proofs.C11Pins` and has to be compared with the new text before it is re-pinned. -/
namespace GoawkModel.Pins.C11
theorem pin_nextLine : Generated.C11Pins.nextLine = Expected.nextLine := rfl
theorem pin_setFile : Generated.C11Pins.setFile = Expected.setFile := rfl
theorem pin_executeAll : Generated.C11Pins.executeAll = Expected.executeAll := rfl
theorem pin_execActions : Generated.C11Pins.execActions = Expected.execActions := rfl
theorem pin_list : Generated.C11Pins.pinned = Expected.pinned := rfl
end GoawkModel.Pins.C11
-- end of pinned source text
