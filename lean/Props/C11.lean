/-! Property theorems for C11 (see /verif/DESIGN.md). Only property theorems and non-vacuity examples live here. -/
