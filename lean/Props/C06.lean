import Proofs.C06Empty
import Proofs.C06Pins
import Proofs.C06Refine
import Proofs.C06Conseq
import Proofs.C06Split
import Proofs.C06Num
import Proofs.C06SplitMulti
/-!
# C06 — `$0`, the fields and NF stay mutually consistent under every update

Property theorems over the record model `GoawkModel.C06` (`Rec` = the lazily split record of `interp.go`/`io.go`,
`Spec` = the eager specification in which the fields are always split and NF is their number; `abs` forces the lazy
split with the FS saved at `setLine`). The regex engine is the parameter `M` (any function from compiled regex and line to
a match list). No bound on the length of a history, on record texts, separators or indexes.
-/
namespace GoawkModel.C06.Props
open GoawkModel GoawkModel.C06

variable {ρ : Type} (M : ρ → Bytes → List (Nat × Nat))

/-! ## refinement -/

/-- One operation on the lazy record matches the same operation on the eager specification through `abs`, prints the same
observation, and keeps "stored NF = number of fields". `op.Canon` only excludes `NF = <string>` where the string is not the
decimal count it denotes (for those see `refines_num` and `nf_is_count_fails`). -/
theorem refines (r : Rec ρ) (op : Op ρ) (hinv : Inv r) (hc : op.Canon) :
    abs M (step M r op).1 = (specStep M (abs M r) op).1 ∧ (step M r op).2 = (specStep M (abs M r) op).2 ∧
      Inv (step M r op).1 :=
  refines_step M r op hinv hc

/-- Every history from a fresh interpreter: the lazy record prints exactly what the eager specification prints. -/
theorem lift (rsEmpty : Bool) (ops : List (Op ρ)) (hc : ∀ op ∈ ops, op.Canon) :
    run M (Rec.init rsEmpty) ops = specRun M (Spec.init rsEmpty) ops := by
  rw [lift_run M _ ops (init_inv rsEmpty) hc, abs_init]

/-- The same with NF compared as a number: histories may assign strings such as "3x" or " 2 " to NF (integral value). -/
theorem refines_num (r : Rec ρ) (op : Op ρ) (hinv : InvW r) (hc : op.Integral) :
    abs M (step M r op).1 = (specStep M (abs M r) op).1 ∧ Out.numEq (step M r op).2 (specStep M (abs M r) op).2 ∧
      InvW (step M r op).1 :=
  refines_step_num M r op hinv hc

theorem lift_num (rsEmpty : Bool) (ops : List (Op ρ)) (hc : ∀ op ∈ ops, op.Integral) :
    outsNumEq (run M (Rec.init rsEmpty) ops) (specRun M (Spec.init rsEmpty) ops) := by
  have := lift_run_num M (Rec.init rsEmpty) ops (init_invW rsEmpty) hc
  rwa [abs_init] at this

/-! ## NF is the number of fields — full statement, the part that holds, and the part that fails -/

/-- the property clause at full strength: in every history NF reads (numerically) as the number of fields, and everything
else reads as in the eager specification -/
def NFAlwaysCount : Prop :=
  ∀ (rsEmpty : Bool) (ops : List (Op Unit)),
    outsNumEq (run (fun _ _ => []) (Rec.init rsEmpty) ops) (specRun (fun _ _ => []) (Spec.init rsEmpty) ops)

/-- holds for every history whose string-typed NF assignments have an integral numeric value -/
theorem nf_is_count_partial (rsEmpty : Bool) (ops : List (Op Unit)) (hc : ∀ op ∈ ops, op.Integral) :
    outsNumEq (run (fun _ _ => []) (Rec.init rsEmpty) ops) (specRun (fun _ _ => []) (Spec.init rsEmpty) ops) :=
  lift_num _ rsEmpty ops hc

/-- finding F08s: `$0 = "a b c"; NF = "2.7"` leaves two fields and NF reading 2.7 -/
theorem nf_is_count_fails : ¬ NFAlwaysCount := by
  intro h
  have := h false [.setLine [97, 32, 98, 32, 99] true, .setNF (.str [50, 46, 55] (.rat 27 10)), .getNF]
  have e1 : run (fun (_ : Unit) _ => []) (Rec.init false)
      [.setLine [97, 32, 98, 32, 99] true, .setNF (.str [50, 46, 55] (.rat 27 10)), .getNF]
      = [.none, .none, .nf ⟨[50, 46, 55], .rat 27 10⟩] := by decide
  have e2 : specRun (fun (_ : Unit) _ => []) (Spec.init false)
      [.setLine [97, 32, 98, 32, 99] true, .setNF (.str [50, 46, 55] (.rat 27 10)), .getNF]
      = [.none, .none, .nf (NFv.count 2)] := by decide
  rw [e1, e2] at this
  simp [outsNumEq, Out.numEq, NFv.count] at this

/-- after any history (Canon), reading NF prints the number of fields of the abstract record -/
theorem nf_is_count (rsEmpty : Bool) (ops : List (Op ρ)) (hc : ∀ op ∈ ops, op.Canon) :
    (step M (exec M (Rec.init rsEmpty) ops) .getNF).2
      = .nf (NFv.count (abs M (exec M (Rec.init rsEmpty) ops)).fields.length) :=
  nf_count M _ (exec_inv M _ ops (init_inv rsEmpty) hc)

/-! ## reads change nothing -/

/-- reading `$0`, a field or NF leaves the abstract record as it was (whatever the index: 0, negative, huge, NaN) -/
theorem reads_pure (r : Rec ρ) (op : Op ρ) (h : op.isRead = true) : abs M (step M r op).1 = abs M r :=
  read_pure M r op h

/-- and it is invisible to everything observed afterwards: the remaining history prints what it prints without the read -/
theorem reads_invisible (r : Rec ρ) (op : Op ρ) (ops : List (Op ρ)) (h : op.isRead = true) (hinv : Inv r)
    (hc : ∀ o ∈ ops, o.Canon) : run M r (op :: ops) = (step M r op).2 :: run M r ops :=
  read_invisible M r op ops h hinv hc

/-! ## assignments rebuild `$0` -/

/-- `$i = v`, `1 ≤ i ≤ maxFieldIndex`: intervening new fields are empty, field `i` is `v`, `$0` is the join -/
theorem setField_rebuild (r : Rec ρ) (hinv : Inv r) (i : Num) (v : Bytes) (h1 : 1 ≤ floatToInt i) (h2 : floatToInt i ≤ maxFieldIndex) :
    let s := abs M r
    let s' := abs M (step M r (.setField i v)).1
    let k := (floatToInt i).toNat
    s'.fields.map Prod.fst = ((s.fields.map Prod.fst) ++ List.replicate (k - s.fields.length) []).set (k - 1) v ∧
    s'.line = joinFields s.env s'.fields ∧ s'.env = s.env := by
  obtain ⟨e1, _, _⟩ := refines_step M r (.setField i v) hinv trivial
  simp only []
  rw [e1]
  obtain ⟨a, b, c, _⟩ := spec_setField M (abs M r) i v h1 h2
  exact ⟨a, b, c⟩

/-- `NF = n`, `0 ≤ n ≤ maxFieldIndex` (number, or canonical string): truncate or extend with empty fields, `$0` is the
join, NF then reads `n` -/
theorem setNF_rebuild (r : Rec ρ) (hinv : Inv r) (a : NFArg) (hc : a.Canon) (h1 : 0 ≤ goInt a.val) (h2 : goInt a.val ≤ maxFieldIndex) :
    let s := abs M r
    let r' := (step M r (.setNF a)).1
    let s' := abs M r'
    let n := (goInt a.val).toNat
    s'.fields.map Prod.fst = (s.fields.map Prod.fst).take n ++ List.replicate (n - s.fields.length) [] ∧
    s'.line = joinFields s.env s'.fields ∧ (step M r' .getNF).2 = .nf (NFv.count n) := by
  obtain ⟨e1, _, e3⟩ := refines_step M r (.setNF a) hinv hc
  obtain ⟨p, q, _, w⟩ := spec_setNF M (abs M r) a h1 h2
  simp only []
  refine ⟨?_, ?_, ?_⟩
  · rw [e1]; exact p
  · rw [e1]; exact q
  · rw [nf_count M _ e3, e1]
    simpa [specStep] using w

/-- the join is by the current OFS in default mode and CSV-encoded in CSV/TSV output mode -/
theorem join_default (env : Env ρ) (fl : List Fld) (h : env.csv = none) :
    joinFields env fl = intercalate env.ofs (fl.map Prod.fst) := joinFields_default env fl h
theorem join_csv (env : Env ρ) (fl : List Fld) (sep : UInt8) (h : env.csv = some sep) :
    joinFields env fl = csvJoin sep (fl.map Prod.fst) := joinFields_csv env fl sep h

/-! ## `$0 = v` re-splits with the FS then in force; a change of FS does not re-split -/

theorem setLine_resplits (r : Rec ρ) (v : Bytes) (t : Bool) :
    (abs M (step M r (.setLine v t)).1).fields = splitFlds M r.env r.env.fs r.env.fsRe v ∧
    (abs M (step M r (.setLine v t)).1).line = v :=
  C06.setLine_resplits M r v t

theorem fs_change_inert (r : Rec ρ) (fs : Bytes) (re : Option ρ) :
    (abs M (step M r (.setFS fs re)).1).fields = (abs M r).fields ∧
    (abs M (step M r (.setFS fs re)).1).line = (abs M r).line :=
  C06.fs_change_inert M r fs re

/-- the lazy split is really with the FS of the time `$0` was set: set `$0`, change FS any number of times, then look -/
theorem lazy_split_uses_saved_fs (r : Rec ρ) (v : Bytes) (t : Bool) (fs : Bytes) (re : Option ρ) :
    (abs M (step M (step M r (.setLine v t)).1 (.setFS fs re)).1).fields = splitFlds M r.env r.env.fs r.env.fsRe v := by
  rw [(C06.fs_change_inert M _ fs re).1, (C06.setLine_resplits M r v t).1]

/-! ## indexes out of range -/

theorem beyond_nf_empty (r : Rec ρ) (hinv : Inv r) (i : Num) (h : ((abs M r).fields.length : Int) < floatToInt i) :
    (step M r (.getField i)).2 = .val [] true := by
  rw [(refines_step M r (.getField i) hinv trivial).2.1]
  exact spec_beyond_nf M (abs M r) i h

theorem negative_from_last (r : Rec ρ) (hinv : Inv r) (i : Num) (h1 : floatToInt i < 0)
    (h2 : -((abs M r).fields.length : Int) ≤ floatToInt i) :
    ∃ f, (abs M r).fields[(abs M r).fields.length - (floatToInt i).natAbs]? = some f ∧
      (step M r (.getField i)).2 = .val f.1 f.2 := by
  rw [(refines_step M r (.getField i) hinv trivial).2.1]
  exact spec_negative M (abs M r) i h1 h2

theorem huge_index_error (r : Rec ρ) (i : Num) (v : Bytes) (h : floatToInt i > maxFieldIndex) :
    step M r (.setField i v) = (r, .err (.fieldTooLarge (floatToInt i))) :=
  huge_index M r i v h

/-- a rejected assignment to a field, to NF or to FS leaves the whole record state exactly as it was (so after a rejection
that the program survives — a `var=value` operand consumed by `getline` — NF is still the number of fields) -/
theorem rejected_update_unchanged (r : Rec ρ) (op : Op ρ) (e : Err) (h : (step M r op).2 = .err e)
    (hm : ∀ m, op ≠ .setOutMode m) : (step M r op).1 = r :=
  rejected_same_state M r op e h hm

/-- a rejected OUTPUTMODE text resets the output mode to the default (as the code does) but leaves the record alone -/
theorem rejected_outmode_keeps_record (r : Rec ρ) (m : OutMode) (e : Err) (h : (step M r (.setOutMode m)).2 = .err e) :
    let r' := (step M r (.setOutMode m)).1
    r'.line = r.line ∧ r'.fields = r.fields ∧ r'.numFields = r.numFields ∧ r'.haveFields = r.haveFields ∧
      r'.env.csv = none :=
  rejected_outmode_record M r m e h

example : (step (fun (_ : Unit) _ => []) (Rec.init false) (.setNF (.str [49, 48, 48, 48, 48, 48, 49] (.rat 1000001 1)))).2
    = .err (.nfTooLarge 1000001) := by decide

/-- the index conversion clamps instead of wrapping: integers in range are themselves; +Inf and NaN do not become small -/
theorem floatToInt_exact (n : Int) (h1 : minInt < n) (h2 : n < maxInt) : floatToInt (.rat n 1) = n :=
  floatToInt_int n h1 h2

theorem gen_maxFieldIndex : maxFieldIndex = 1000000 := by decide

/-! ## split functions -/

/-- a single (ASCII, non-space) character is a literal separator: joining the fields with it gives the record back -/
theorem splitChar_join (c : UInt8) (s : Bytes) : intercalate [c] (splitSep [c] s) = s := C06.splitChar_join c s

theorem splitChar_fields (c : UInt8) (s : Bytes) :
    (splitSep [c] s).length = (s.filter (fun b => b == c)).length + 1 ∧ ∀ g ∈ splitSep [c] s, ∀ x ∈ g, (x == c) = false := by
  rw [splitSep_single]
  exact ⟨splitOnP_length _ s, splitOnP_no_sep _ s⟩

theorem splitChar_used (c : UInt8) (hc : c < 0x80) (h32 : c ≠ 32) (re : Option ρ) (line : Bytes) (hl : line ≠ []) :
    split M false [c] re line = splitSep [c] line := split_char M c hc h32 re line hl

/-- any single character, ASCII or multi-byte (or a stray byte), is a literal separator -/
theorem splitOneChar_join (fs : Bytes) (h1 : runeCount fs = 1) (h32 : fs ≠ [32]) (re : Option ρ) (line : Bytes) (hl : line ≠ []) :
    intercalate fs (split M false fs re line) = line := by
  have hne : fs ≠ [] := by intro e; subst e; simp [runeCount, runes, runesAux] at h1
  rw [split_onechar M fs h1 h32 re line hl, splitSep_join fs hne]

/-- `FS = " "` on ASCII text: maximal runs of non-blank bytes, none empty, leading/trailing blanks ignored -/
theorem splitSpace_spec (re : Option ρ) (s : Bytes) (h : ∀ b ∈ s, b < 0x80) :
    split M false [32] re s = (splitOnP (fun b => isSpaceCp b.toNat) s).filter (fun g => !g.isEmpty) := by
  rw [split_space, fieldsSpace_ascii s h]

theorem blanks_ascii : ∀ n, n < 128 → isSpaceCp n = ((9 ≤ n && n ≤ 13) || n == 32) := isSpaceCp_ascii

/-- regex separator: the fields interleaved with the non-empty matches give the record back; empty matches produce nothing -/
theorem splitRegex_spec (line : Bytes) (ms : List (Nat × Nat)) (h : MatchesWF line.length 0 ms) :
    weave (splitRegex ms line) (matchTexts line ms) = line ∧
    (splitRegex ms line).length = (matchTexts line ms).length + 1 := by
  refine ⟨?_, splitRegexAux_length line ms 0⟩
  have := splitRegexAux_weave line ms 0 h
  simpa [splitRegex] using this

theorem splitRegex_used (fs : Bytes) (r : ρ) (line : Bytes) (hfs : runeCount fs > 1) (hl : line ≠ []) :
    split M false fs (some r) line = splitRegex (M r line) line := split_regex M fs r line hfs hl

/-! ## non-vacuity -/

/-- a history with a lazy split (FS changed before the first field access), an assignment beyond NF and a fractional NF
assignment; the model prints what the real interpreter prints (`a,b c` is split at the blank, not at the comma) -/
example :
    run (fun (_ : Unit) _ => []) (Rec.init false)
      [.setLine [97, 44, 98, 32, 99] true, .setFS [44] none, .getNF, .setField (.rat 4 1) [120], .getField (.rat 0 1),
       .setNF (.num (.rat 27 10)), .getNF, .getField (.rat 0 1)]
    = [.none, .none, .nf (NFv.count 2), .none, .val [97, 44, 98, 32, 99, 32, 32, 120] true,
       .none, .nf (NFv.count 2), .val [97, 44, 98, 32, 99] true] := by
  decide

example : (Op.setNF (.str [51] (.rat 3 1)) : Op Unit).Canon := by
  simp [Op.Canon, NFArg.Canon, goInt, natToDec, natToDecAux, minInt, maxInt]
example : (Op.setNF (.str [51, 120] (.rat 3 1)) : Op Unit).Integral := by
  simp [Op.Integral, NFArg.Integral, goInt, minInt, maxInt]
example : MatchesWF 8 0 [(1, 3), (3, 3), (5, 6)] := by simp [MatchesWF]
example : splitRegex [(1, 3), (3, 3), (5, 6)] [97, 120, 120, 98, 99, 120, 100, 101] = [[97], [98, 99], [100, 101]] := by decide
example : split (fun (_ : Unit) _ => []) false [32] none [32, 97, 9, 32, 98, 32] = [[97], [98]] := by decide
example : runeCount [0xC3, 0xA9] = 1 ∧ runeCount [0xFF] = 1 ∧ runeCount [0xC3, 0xA9, 0x78] = 2 := by decide
example : csvJoin 44 [[]] = [34, 34] ∧ csvJoin 44 [] = [] ∧ csvJoin 44 [[], [97, 44]] = [44, 34, 97, 44, 34] := by decide
example : floatToInt (.rat 1000001 1) > maxFieldIndex := by decide
example : floatToInt (.inf false) > maxFieldIndex ∧ floatToInt .nan < 0 := by decide

/-! ## `FS = ""`: one field per character (round 6; was "modelled, unproved") -/

/-- With an empty field separator a non-empty record is split into its UTF-8 sequences (an invalid byte stands alone),
whatever RS is: the fields concatenated give back the record, no field is empty, and NF is the character count. -/
theorem split_fs_empty_spec (rs : Bool) (re : Option ρ) (line : Bytes) (hl : line ≠ []) :
    split M rs [] re line = runes line ∧
    (split M rs [] re line).flatten = line ∧
    (∀ f ∈ split M rs [] re line, f ≠ []) ∧
    (split M rs [] re line).length = runeCount line := by
  rw [split_fs_empty M rs re line hl]
  exact ⟨rfl, runes_flatten line, runes_nonempty line, rfl⟩

/-- and on ASCII text the fields are the single bytes -/
theorem split_fs_empty_ascii (rs : Bool) (re : Option ρ) (line : Bytes) (hl : line ≠ []) (h : ∀ b ∈ line, b < 0x80) :
    split M rs [] re line = line.map (fun b => [b]) := by
  rw [split_fs_empty M rs re line hl, runes_ascii line h]

-- non-vacuity: "aé\xffb" gives four fields, the two-byte character kept whole, the invalid byte alone
example : split (fun (_ : Unit) _ => []) true [] none [97, 0xC3, 0xA9, 0xFF, 98] = [[97], [0xC3, 0xA9], [0xFF], [98]] := by decide

/-! ## RS = "" with a one-byte FS: newline is a field separator too (round 6; was "modelled, unproved") -/

/-- In paragraph mode with a single-byte FS other than the blank, the fields are the FS-separated pieces split again at
newlines with one trailing CR dropped, and so: no field contains FS or a newline, and fields are made of the record's bytes. -/
theorem paragraph_char_split_spec (c : UInt8) (hc : c < 0x80) (h32 : c ≠ 32) (re : Option ρ) (line : Bytes) (hl : line ≠ []) :
    split M true [c] re line = (splitSep [c] line).flatMap (fun f => (splitSep [10] f).map trimCR) ∧
    ∀ f ∈ split M true [c] re line, c ∉ f ∧ (10 : UInt8) ∉ f ∧ ∀ x ∈ f, x ∈ line :=
  ⟨split_paragraph_char M c hc h32 re line hl, split_paragraph_char_clean M c hc h32 re line hl⟩

-- non-vacuity: "a:b\r\nc:d" with FS=":" in paragraph mode gives a, b (CR dropped), c, d
example : split (fun (_ : Unit) _ => []) true [58] none [97, 58, 98, 13, 10, 99, 58, 100] = [[97], [98], [99], [100]] := by decide

/-- The same for ANY one-character FS, a multi-byte character included (what it cannot say for a multi-byte FS is that the
FS bytes are absent from a field: only whole occurrences are removed). -/
theorem paragraph_onechar_split_spec (fs : Bytes) (h1 : runeCount fs = 1) (h32 : fs ≠ [32]) (re : Option ρ) (line : Bytes)
    (hl : line ≠ []) :
    split M true fs re line = (splitSep fs line).flatMap (fun f => (splitSep [10] f).map trimCR) ∧
    ∀ f ∈ split M true fs re line, (10 : UInt8) ∉ f ∧ ∀ x ∈ f, x ∈ line :=
  ⟨split_paragraph_onechar M fs h1 h32 re line hl, split_paragraph_onechar_clean M fs h1 h32 re line hl⟩

-- non-vacuity: FS="é" (two bytes, one character) in paragraph mode: "aé b\ncéd" gives a, " b", c, d
example : runeCount [0xC3, 0xA9] = 1 ∧
    split (fun (_ : Unit) _ => []) true [0xC3, 0xA9] none [97, 0xC3, 0xA9, 32, 98, 10, 99, 0xC3, 0xA9, 100] = [[97], [32, 98], [99], [100]] := by
  decide

end GoawkModel.C06.Props

/-! ## Pinned source text (regenerated tie; extract/pins.go, tools/repin.py)
An edit of one of these functions in /repo breaks the matching obligation: the model below was written from the text
in `Proofs.C06Pins` and has to be compared with the new text before it is re-pinned. -/
namespace GoawkModel.Pins.C06
theorem pin_setLine : Generated.C06Pins.setLine = Expected.setLine := rfl
theorem pin_ensureFields : Generated.C06Pins.ensureFields = Expected.ensureFields := rfl
theorem pin_splitOnFieldSepRegex : Generated.C06Pins.splitOnFieldSepRegex = Expected.splitOnFieldSepRegex := rfl
theorem pin_getField : Generated.C06Pins.getField = Expected.getField := rfl
theorem pin_setField : Generated.C06Pins.setField = Expected.setField := rfl
theorem pin_joinFields : Generated.C06Pins.joinFields = Expected.joinFields := rfl
theorem pin_list : Generated.C06Pins.pinned = Expected.pinned := rfl
end GoawkModel.Pins.C06
-- end of pinned source text
