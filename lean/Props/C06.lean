/-! Property theorems for C06 (see /verif/DESIGN.md). Only property theorems and non-vacuity examples live here. -/
