import GoawkModel.C02
import Proofs.C02Sound
import Proofs.C02Depth
import Proofs.C02Shape
import Proofs.C02Compile
import Proofs.C02Str
/-! Property theorems for C02 (see /verif/DESIGN.md). Only property theorems and non-vacuity examples live here. -/
namespace GoawkModel.C02
open GoawkModel.Generated

/-! ## 1. the bytecode verifier is sound: verified code never gets stuck -/

/-- Progress for every run: if `verify` accepts the emitted code of a program then no run of the abstract machine from any of its
top-level blocks (BEGIN, patterns, actions, END) — any number of steps, any branch outcomes, any loop counts, any run-time errors,
calls into every function — reaches `stuck` (stack underflow, ip outside the block or off an instruction, table index out of range,
unbalanced block exit). -/
theorem verify_sound (p : Prog) (hv : verify p = true) (b : Code × Nat) (hb : b ∈ p.blocks) (cs : List Choice) :
    run p.tables (initState b.1 b.2) cs ≠ .stuck := by
  obtain ⟨hblocks, hfuncs⟩ := verify_blocks hv
  exact run_good hfuncs cs (good_init (hblocks b hb))

/-- The invariant behind `verify_sound`, one step at a time. -/
theorem verified_step_preserves (p : Prog) (hv : verify p = true) (s : State) (hg : Good p.tables s) (c : Choice) :
    match step p.tables s c with
    | .next s' => Good p.tables s'
    | .stuck => False
    | _ => True :=
  step_good (verify_blocks hv).2 hg c

/-- Every program the compiler emits verifies. `emitted p` stands for "p is the code dump of some program the parser accepted";
the compiler is not modelled here (C01 models it), so this is checked per explored program by translation validation in the
harness (the real dump is sent to `verify`). -/
def compile_verifies (emitted : Prog → Prop) : Prop := ∀ p, emitted p → verify p = true

theorem emitted_code_never_stuck (emitted : Prog → Prop) (h : compile_verifies emitted) (p : Prog) (hp : emitted p)
    (b : Code × Nat) (hb : b ∈ p.blocks) (cs : List Choice) : run p.tables (initState b.1 b.2) cs ≠ .stuck :=
  verify_sound p (h p hp) b hb cs

/-- the real emitted code of
`function f(a, n, k) { for (k in a) if (k > n) return k; return 0 } BEGIN { A[1]; print f(A, 0) } $1 > 2 { x += $1 }` -/
def exampleProg : Prog :=
  { tables := { nNums := 2, nStrs := 1, nRegexes := 0, nScalars := 1, nArrays := 4, nNative := 1,
                funcs := [{ numScalars := 2, numArrays := 1,
                            body := [74, 1, 1, 1, 0, 10, 12, 1, 12, 0, 51, 62, 3, 12, 1, 83, 1, 0, 83] }] },
    blocks := [([2, 0, 14, 0, 4, 1, 0, 85, 1, 81, 0, 1, 3, 0, 86, 1, 0], 0), ([8, 1, 1, 1, 51], 1), ([8, 1, 34, 0, 0], 0)] }

example : verify exampleProg = true := by decide +kernel
/-- the verifier is not trivially true: dropping the `Drop` of the first statement unbalances BEGIN -/
example : verify { exampleProg with blocks := [([2, 0, 14, 0, 1, 0, 85, 1, 81, 0, 1, 3, 0, 86, 1, 0], 0)] } = false := by decide +kernel
/-- … and a jump into the middle of an instruction is rejected -/
example : verify { exampleProg with blocks := [([61, 1, 1, 0, 4], 0)] } = false := by decide +kernel

/-! ## 2. call depth -/

/-- `callDepth ≤ maxCallDepth` is an invariant of every step … -/
theorem depth_step (t : Tables) (s s' : State) (c : Choice) (hb : callDepth s ≤ Consts.maxCallDepth)
    (h : step t s c = .next s') : callDepth s' ≤ Consts.maxCallDepth := step_depth hb h

/-- … hence of every run, from every top-level block, of ANY code (verified or not). -/
theorem depth_bounded (t : Tables) (code : Code) (endH : Nat) (cs : List Choice) (s' : State)
    (h : run t (initState code endH) cs = .next s') : callDepth s' ≤ Consts.maxCallDepth :=
  run_depth cs (by simp [initState, callDepth, isFunc]) h

/-- A call at the maximum depth is reported as an error value, not a fault. -/
theorem depth_exceeded_is_error (t : Tables) (fr : Frame) (rest : State) (c : Choice) (len f : Nat) (fi : FuncInfo)
    (hf : t.funcs[f]? = some fi) (hh : fi.numScalars ≤ fr.h) (hd : callDepth (fr :: rest) ≥ Consts.maxCallDepth) :
    exec t fr rest c (.call len f) = .error := by
  simp [exec, hf, Nat.not_lt.mpr hh, hd]

/-- the hypotheses of `depth_exceeded_is_error` are met by a stack of `maxCallDepth` function activations -/
example : callDepth (List.replicate Consts.maxCallDepth
    { code := [], cx := topCtx, pc := 0, h := 0, kind := .func 0, endH := 0 }) ≥ Consts.maxCallDepth := by decide +kernel

/-! ## 3. numbers that reach field indexes, NF, ARGC -/

theorem floatToInt_range (x : Num) : minInt ≤ floatToInt x ∧ floatToInt x ≤ maxInt := by
  cases x with
  | nan => simp [floatToInt, minInt, maxInt]
  | inf neg => cases neg <;> simp [floatToInt, minInt, maxInt]
  | fin neg m e =>
    simp only [floatToInt]
    split
    · simp [minInt, maxInt]
    · split
      · simp [minInt, maxInt]
      · constructor <;> omega

theorem getField_total (n : Nat) (i : Int) : getField n i ≠ .stuck := by
  unfold getField
  dsimp only
  repeat' split
  all_goals first | (intro h; cases h; done) | (exfalso; omega)

theorem setField_total (n : Nat) (i : Int) : setField n i ≠ .stuck := by
  unfold setField
  dsimp only
  repeat' split
  all_goals first | (intro h; cases h; done) | (exfalso; omega)

/-- For every double x — NaN, ±Inf, huge, negative, fractional — `$x`, `$x = v`, `NF = x` and `ARGC = x` return a value or an
error: the slice accesses of getField/setField are in range (no `stuck`). -/
theorem field_index_total (x : Num) (n : Nat) :
    getField n (floatToInt x) ≠ .stuck ∧ setField n (floatToInt x) ≠ .stuck :=
  ⟨getField_total n _, setField_total n _⟩

/-- the guards bound what one assignment can allocate -/
theorem setField_bounded (n : Nat) (i : Int) (n' slot : Nat) (h : setField n i = .ok n' slot) :
    n' ≤ max n Consts.maxFieldIndex ∧ slot < n' := by
  revert h
  unfold setField
  dsimp only
  repeat' split
  all_goals first | (intro h; cases h; done) | (intro h; injection h with h1 h2; subst h1; subst h2; simp only [Consts.maxFieldIndex] at *; constructor <;> omega)

theorem setNF_bounded (x : Num) (k : Nat) (h : setNF x = some k) : k ≤ Consts.maxFieldIndex := by
  revert h
  unfold setNF
  dsimp only
  repeat' split
  all_goals first | (intro h; cases h; done) | (intro h; injection h with h1; subst h1; simp only [Consts.maxFieldIndex] at *; omega)

/-- oversized field numbers and NF values are errors -/
example : setField 3 (floatToInt (.fin false 1 100)) = .error := by decide
example : setField 3 (floatToInt (.inf false)) = .error := by decide
example : setField 3 (floatToInt .nan) = .ignored := by decide
example : setField 3 Consts.maxFieldIndex = .ok Consts.maxFieldIndex (Consts.maxFieldIndex - 1) ∧ setField 3 (Consts.maxFieldIndex + 1) = .error := by decide +kernel
example : setNF (.inf false) = none ∧ setNF .nan = none ∧ setNF (.fin true 1 0) = none ∧ setNF (.fin false 5 (-1)) = some 2 := by decide
example : getField 3 (floatToInt (.fin true 1 0)) = .field 2 := by decide

/-! ## 4. the shape table is the one in the source now (regenerated facts) -/

/-- opcode numbering: the model dispatches on the generated names; every name has an operand count except the sentinel -/
theorem names_covered : Opcodes.opcodes.all (fun n => (operandCount n).isSome || n == "EndOpcode") = true := by decide +kernel

theorem gen_matches_operands : operandsAgree = true := by decide +kernel
theorem gen_matches_fixed_effects : fixedEffectsAgree = true := by decide +kernel
theorem gen_matches_builtin_effects : builtinEffectsAgree = true := by decide +kernel
theorem gen_matches_dynamic : dynamicCases = expectedDynamicCases := by decide +kernel
theorem gen_matches_exits :
    exitKinds = [("Next", 1), ("Nextfile", 2), ("Exit", 3), ("ExitStatus", 3), ("BreakForIn", 4), ("Return", 5), ("ReturnNull", 5)] := by
  decide +kernel
/-- only Nop and the sentinel have no `case` in the dispatch switch; every builtin has a case -/
theorem gen_matches_missing : C02Arity.vmMissing.map opName = ["Nop", "EndOpcode"] ∧ C02Arity.builtinCases.length = C02Arity.numBuiltins := by
  decide +kernel
/-- every special-variable index a verified operand can hold has a case in getSpecial and setSpecial (their `default:` panics) -/
theorem gen_matches_specials :
    C02Arity.getSpecialCases = C02Arity.numSpecials ∧ C02Arity.setSpecialCases = C02Arity.numSpecials := by decide

/-! ## 5. `compile_verifies` as a theorem for the fragment of the compiler that C01 models

`C01.cExpr` / `C01.cStmt` is C01's Lean model of `internal/compiler` (tied to the real compiler by word-for-word code equality on
every program C01 explores; proved semantically correct in Props/C01). Its code, put into opcode words by `C01.encode`, has a
height certificate — the left-to-right scan — that the C02 checker `checkBlock` accepts: every jump lands on an instruction
boundary inside the block at the height the jump leaves, no instruction pops below the block's base, expressions leave +1 and
statements leave 0. Hence (invariant of `verify_sound`) no run over it gets stuck. Side conditions: assignment targets are lvalues
(`slvOK` / `lvOK`, what the parser guarantees), no user calls / `return` (not yet in the typed fragment), and the constants,
variables and arrays the code names exist in the tables (`Fits`). -/

open GoawkModel.C01 in
/-- the code of a whole statement block of C01's language has a certificate accepted by the checker -/
theorem compile_certified_modelled (t : Tables) (tb : C01.Tables) (p : Stmt)
    (hO : tb.opcodes = Opcodes.opcodes) (hA : tb.augOps = Opcodes.augOps) (hl : Ty.slvOK p = true)
    (hF : ∀ i ∈ cStmt 0 0 p, Fits t tb topCtx i) :
    checkBlock t topCtx false 0 (encode tb (cStmt 0 0 p)) (heightsOf (cStmt 0 0 p)) (fun _ => false) = true :=
  encode_certified t tb topCtx false _ 0 hO hA hF (Ty.block_typed p hl)

open GoawkModel.C01 in
/-- … and of a pattern expression (one value left) -/
theorem compile_expr_certified_modelled (t : Tables) (tb : C01.Tables) (e : Expr)
    (hO : tb.opcodes = Opcodes.opcodes) (hA : tb.augOps = Opcodes.augOps) (hl : Ty.lvOK e = true)
    (hF : ∀ i ∈ cExpr e, Fits t tb topCtx i) :
    checkBlock t topCtx false 1 (encode tb (cExpr e)) (heightsOf (cExpr e)) (fun _ => false) = true :=
  encode_certified t tb topCtx false _ 1 hO hA hF (Ty.cExpr_push1 e hl 0)

open GoawkModel.C01 in
/-- Progress for compiled code, no per-program check involved: whatever statement of the modelled language is compiled, no run of
the abstract machine over the emitted words — any number of steps, any branch outcomes — reaches `stuck`. -/
theorem compiled_stmt_never_stuck (t : Tables) (tb : C01.Tables) (p : Stmt)
    (hO : tb.opcodes = Opcodes.opcodes) (hA : tb.augOps = Opcodes.augOps) (hl : Ty.slvOK p = true)
    (hF : ∀ i ∈ cStmt 0 0 p, Fits t tb topCtx i) (hfs : FuncsOK t) (cs : List Choice) :
    run t (initState (encode tb (cStmt 0 0 p)) 0) cs ≠ .stuck :=
  run_good hfs cs (encoded_block_good t tb _ 0 hO hA hF (Ty.block_typed p hl))

open GoawkModel.C01 in
theorem compiled_expr_never_stuck (t : Tables) (tb : C01.Tables) (e : Expr)
    (hO : tb.opcodes = Opcodes.opcodes) (hA : tb.augOps = Opcodes.augOps) (hl : Ty.lvOK e = true)
    (hF : ∀ i ∈ cExpr e, Fits t tb topCtx i) (hfs : FuncsOK t) (cs : List Choice) :
    run t (initState (encode tb (cExpr e)) 1) cs ≠ .stuck :=
  run_good hfs cs (encoded_block_good t tb _ 1 hO hA hF (Ty.cExpr_push1 e hl 0))

open GoawkModel.C01 in
/-- What is NOT yet a theorem: that the executable `verify` — whose height inference `infer` is a forward scan that is only
re-checked, not proved complete — also answers `true` on this code (the certificate above shows a valid assignment exists;
`infer` finding it is validated per program by the harness), and the same for code with user calls, `return`, for-in, getline,
printf and the builtins. -/
def compile_verifies_modelled : Prop :=
  ∀ (t : Tables) (tb : C01.Tables) (p : Stmt), tb.opcodes = Opcodes.opcodes → tb.augOps = Opcodes.augOps → Ty.slvOK p = true →
    (∀ i ∈ cStmt 0 0 p, Fits t tb topCtx i) → FuncsOK t → verify { tables := t, blocks := [(encode tb (cStmt 0 0 p), 0)] } = true

namespace CompileExample
open GoawkModel.C01

/-- `while (g0 < g1) { g0++; if (g0 == g1) break }` -/
def prog : Stmt :=
  .while (.cmp .lt (.var .global 0) (.var .global 1))
    (.seq (.expr (.incr (.var .global 0) false false)) (.ifThen (.cmp .eq (.var .global 0) (.var .global 1)) .brk))
def tb : C01.Tables := { opcodes := Opcodes.opcodes, augOps := Opcodes.augOps, nums := [], strs := [] }
def t : C02.Tables := { nNums := 0, nStrs := 0, nRegexes := 0, nScalars := 2, nArrays := 0, nNative := 0, funcs := [] }

example : Ty.slvOK prog = true := by decide
example : FuncsOK t := by intro f hf; cases hf
example : ∀ i ∈ cStmt 0 0 prog, Fits t tb topCtx i := by
  intro i hi
  simp [prog, cStmt, cCondT, cCondF, cJumpT, cJumpF, cExpr, cE, cExprStmt, stmtSize] at hi
  rcases hi with rfl | rfl | rfl | rfl | rfl | rfl | rfl | rfl | rfl | rfl | rfl | rfl <;> simp [Fits, varFits, t]
/-- on this instance the executable verifier agrees with the certificate -/
example : verify { tables := t, blocks := [(encode tb (cStmt 0 0 prog), 0)] } = true := by decide +kernel
end CompileExample

/-! ## 6. substr() never slices outside its string — byte mode and character mode, any bytes, any numbers

The strings are arbitrary byte strings (valid UTF-8 or not: stray continuation bytes, sequences truncated at the start, in the
middle or at the end, overlong forms, surrogates, 0xFF), the positions and lengths arbitrary integers. `stuck` is Go's
"slice bounds out of range" panic of the final `s[lo:hi]` (and of `s[start:]` inside `substrLengthChars`). The model functions
are compared byte for byte with the interpreter's substr() by the harness (stream `substr-model`). -/

theorem substrBytes_total (s : Bytes) (pos : Int) : substrBytes s pos ≠ .stuck := by
  unfold substrBytes
  dsimp only
  apply slice_ok <;> (repeat' split) <;> omega

theorem substrLengthBytes_total (s : Bytes) (pos length : Int) : substrLengthBytes s pos length ≠ .stuck := by
  unfold substrLengthBytes
  dsimp only
  apply slice_ok <;> (repeat' split) <;> omega

theorem substrChars_total (s : Bytes) (pos : Int) : substrChars s pos ≠ .stuck := by
  unfold substrChars
  have := charStart_le s pos
  apply slice_ok <;> omega

theorem substrLengthChars_total (s : Bytes) (pos length : Int) : substrLengthChars s pos length ≠ .stuck := by
  unfold substrLengthChars
  dsimp only
  have hs := charStart_le s pos
  rw [if_neg (by omega)]
  have he : (if length ≥ (rangeLoop length (runeStarts (s.drop (charStart s pos))) 0 0).2 then s.length
      else (rangeLoop length (runeStarts (s.drop (charStart s pos))) 0 0).1 + charStart s pos) ≤ s.length ∧
      charStart s pos ≤ (if length ≥ (rangeLoop length (runeStarts (s.drop (charStart s pos))) 0 0).2 then s.length
      else (rangeLoop length (runeStarts (s.drop (charStart s pos))) 0 0).1 + charStart s pos) := by
    split
    · exact ⟨Nat.le_refl _, hs⟩
    · rcases rangeLoop_start length (runeStarts (s.drop (charStart s pos))) 0 0 with h | h
      · rw [h]; omega
      · have := runeStarts_lt _ _ h
        simp only [List.length_drop] at this
        omega
  apply slice_ok <;> omega

/-- For every byte string, in both modes, for every pair of doubles that reaches substr() — NaN, ±Inf, huge, negative,
fractional — the call returns a string: no slice expression in it is out of range. -/
theorem substr_total (chars : Bool) (s : Bytes) (x : Num) (y : Option Num) : substr chars s x y ≠ .stuck := by
  unfold substr
  split
  · exact substrBytes_total _ _
  · exact substrLengthBytes_total _ _ _
  · exact substrChars_total _ _
  · exact substrLengthChars_total _ _ _

/-- the width the character loop steps by never leaves the string (what `%c` of a string argument slices by in character mode) -/
theorem runeWidth_in_string (b : UInt8) (rest : Bytes) : 1 ≤ runeWidth (b :: rest) ∧ runeWidth (b :: rest) ≤ (b :: rest).length :=
  ⟨runeWidth_pos b rest, runeWidth_le _⟩

/-- "caf" followed by the first byte of a two-byte character, character mode: substr(s, 5) is empty, substr(s, 4, 1) is the
stray byte, substr(s, 2, 9) the rest — the inputs on which stepping by the length the lead byte ANNOUNCES would slice s[5:4] -/
example : substrChars [0x63, 0x61, 0x66, 0xC3] 5 = .ok [] ∧ substrLengthChars [0x63, 0x61, 0x66, 0xC3] 4 1 = .ok [0xC3] ∧
    substrLengthChars [0x63, 0x61, 0x66, 0xC3] 2 9 = .ok [0x61, 0x66, 0xC3] := by decide
/-- a whole character is one step: "aé€" -/
example : runeStarts [0x61, 0xC3, 0xA9, 0xE2, 0x82, 0xAC] = [0, 1, 3] ∧ substrLengthChars [0x61, 0xC3, 0xA9, 0xE2, 0x82, 0xAC] 2 1 = .ok [0xC3, 0xA9] := by decide
/-- `stuck` is reachable by the slice expression itself: the theorems are about the arithmetic in front of it -/
example : slice [1, 2] 3 2 = .stuck ∧ slice [1, 2] 1 3 = .stuck ∧ slice [1, 2] (-1) 1 = .stuck ∧ slice [1, 2] 1 2 = .ok [2] := by decide
example : substr true [0xC3] .nan (some (.inf false)) = .ok [0xC3] ∧ substr false [0x61, 0x62] (.fin false 1 1) (some (.fin true 1 0)) = .ok [] := by decide

end GoawkModel.C02
