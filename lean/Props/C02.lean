/-! Property theorems for C02 (see /verif/DESIGN.md). Only property theorems and non-vacuity examples live here. -/
