import GoawkModel.Drv.C19
/-! Line-protocol driver executable for property C19: one request per stdin line, exactly one answer line each. -/
def main : IO Unit := GoawkModel.runDriver GoawkModel.Drv.C19.handle
