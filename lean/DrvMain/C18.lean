import GoawkModel.Drv.C18
/-! Line-protocol driver executable for property C18: one request per stdin line, exactly one answer line each. -/
def main : IO Unit := GoawkModel.runDriver GoawkModel.Drv.C18.handle
