import GoawkModel.Drv.C12
/-! Line-protocol driver executable for property C12: one request per stdin line, exactly one answer line each. -/
def main : IO Unit := GoawkModel.runDriver GoawkModel.Drv.C12.handle
