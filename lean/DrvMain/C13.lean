import GoawkModel.Drv.C13
/-! Line-protocol driver executable for property C13: one request per stdin line, exactly one answer line each. -/
def main : IO Unit := GoawkModel.runDriver GoawkModel.Drv.C13.handle
