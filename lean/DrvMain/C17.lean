import GoawkModel.Drv.C17
/-! Line-protocol driver executable for property C17: one request per stdin line, exactly one answer line each. -/
def main : IO Unit := GoawkModel.runDriver GoawkModel.Drv.C17.handle
