import GoawkModel.Drv.C09
/-! Line-protocol driver executable for property C09: one request per stdin line, exactly one answer line each. -/
def main : IO Unit := GoawkModel.runDriver GoawkModel.Drv.C09.handle
