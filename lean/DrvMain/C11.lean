import GoawkModel.Drv.C11
/-! Line-protocol driver executable for property C11: one request per stdin line, exactly one answer line each. -/
def main : IO Unit := GoawkModel.runDriver GoawkModel.Drv.C11.handle
