import GoawkModel.Drv.C10
/-! Line-protocol driver executable for property C10: one request per stdin line, exactly one answer line each. -/
def main : IO Unit := GoawkModel.runDriver GoawkModel.Drv.C10.handle
