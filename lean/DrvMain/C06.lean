import GoawkModel.Drv.C06
/-! Line-protocol driver executable for property C06: one request per stdin line, exactly one answer line each. -/
def main : IO Unit := GoawkModel.runDriver GoawkModel.Drv.C06.handle
