import GoawkModel.Drv.C04
/-! Line-protocol driver executable for property C04: one request per stdin line, exactly one answer line each. -/
def main : IO Unit := GoawkModel.runDriver GoawkModel.Drv.C04.handle
