import GoawkModel.Drv.C01
/-! Line-protocol driver executable for property C01: one request per stdin line, exactly one answer line each. -/
def main : IO Unit := GoawkModel.runDriver GoawkModel.Drv.C01.handle
