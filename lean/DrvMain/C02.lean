import GoawkModel.Drv.C02
/-! Line-protocol driver executable for property C02: one request per stdin line, exactly one answer line each. -/
def main : IO Unit := GoawkModel.runDriver GoawkModel.Drv.C02.handle
