import GoawkModel.Drv.C15
/-! Line-protocol driver executable for property C15: one request per stdin line, exactly one answer line each. -/
def main : IO Unit := GoawkModel.runDriver GoawkModel.Drv.C15.handle
