import GoawkModel.Drv.C16
/-! Line-protocol driver executable for property C16: one request per stdin line, exactly one answer line each. -/
def main : IO Unit := GoawkModel.runDriver GoawkModel.Drv.C16.handle
