import GoawkModel.Drv.C20
/-! Line-protocol driver executable for property C20: one request per stdin line, exactly one answer line each. -/
def main : IO Unit := GoawkModel.runDriver GoawkModel.Drv.C20.handle
