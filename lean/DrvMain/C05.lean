import GoawkModel.Drv.C05
/-! Line-protocol driver executable for property C05: one request per stdin line, exactly one answer line each. -/
def main : IO Unit := GoawkModel.runDriver GoawkModel.Drv.C05.handle
