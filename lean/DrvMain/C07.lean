import GoawkModel.Drv.C07
/-! Line-protocol driver executable for property C07: one request per stdin line, exactly one answer line each. -/
def main : IO Unit := GoawkModel.runDriver GoawkModel.Drv.C07.handle
