import GoawkModel.Drv.C08
/-! Line-protocol driver executable for property C08: one request per stdin line, exactly one answer line each. -/
def main : IO Unit := GoawkModel.runDriver GoawkModel.Drv.C08.handle
