import GoawkModel.Drv.C14
/-! Line-protocol driver executable for property C14: one request per stdin line, exactly one answer line each. -/
def main : IO Unit := GoawkModel.runDriver GoawkModel.Drv.C14.handle
