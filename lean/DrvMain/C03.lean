import GoawkModel.Drv.C03
/-! Line-protocol driver executable for property C03: one request per stdin line, exactly one answer line each. -/
def main : IO Unit := GoawkModel.runDriver GoawkModel.Drv.C03.handle
